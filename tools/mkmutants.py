#!/venv/bin/python
"""Developer helper: (re)generate the hand-written mutant and neutral-refactor catalogues.

Each entry is (id, property, file, old, new, what-it-needs).  The edit is applied to a scratch copy of /repo under /tmp
(removed afterwards), the pinned test suite is run there, and only edits that keep the suite green are written to
/verif/mutants/<id>/ (or /verif/neutral/<id>/) as patch.diff + meta.json.
"""
import json
import os
import shutil
import subprocess
import sys
import tempfile

V = os.path.dirname(os.path.dirname(os.path.abspath(__file__)))

MUTANTS = [
    # ---------------- C04
    ('c04-subpixel-shift-dropped', 'C04', 'lentil/propagate.py',
     "shift=prop_shift + subpx_shift,", "shift=prop_shift,",
     'a tilt that is not a whole number of output samples'),
    ('c04-y-tilt-sign', 'C04', 'lentil/plane.py',
     "        y = ys - (z * self.y)\n        return x, y", "        y = ys + (z * self.y)\n        return x, y",
     'a non-zero x tilt compared with the same tilt in the OPD'),
    ('c04-field-mul-keeps-one-tilt-list', 'C04', 'lentil/field.py',
     "        tilt = self.tilt + other.tilt\n", "        tilt = other.tilt if other.tilt else self.tilt\n",
     'two tilt carriers in one chain (e.g. a fitted pupil followed by a Tilt plane)'),
    ('c04-fit-tilt-removes-piston', 'C04', 'lentil/plane.py',
     "            opd_tilt = np.einsum('ij,i->j', ptt_vector[1:3], t[1:3])", "            opd_tilt = np.einsum('ij,i->j', ptt_vector[0:3], t[0:3])",
     'a monolithic pupil with non-zero mean OPD that is tilt-fitted'),
    ('c04-refit-overwrites-tilt', 'C04', 'lentil/plane.py',
     "            plane.tilt.append(Tilt(x=t[1], y=t[2]))", "            plane.tilt = [Tilt(x=t[1], y=t[2])]",
     'fit_tilt, then an OPD update, then fit_tilt again on the same plane'),
    # ---------------- C07
    ('c07-insert-ignores-weight', 'C07', 'lentil/wavefront.py',
     "out = lentil.field.insert(field, out, intensity=True, weight=weight)", "out = lentil.field.insert(field, out, intensity=True)",
     'Wavefront.insert with weight != 1'),
    ('c07-insert-assigns', 'C07', 'lentil/field.py',
     "        out[out_slice] += (np.abs(field.data[field_slice]**2) * weight)", "        out[out_slice] = (np.abs(field.data[field_slice]**2) * weight)",
     'accumulating into an array that is not zero'),
    ('c07-intensity-incoherent', 'C07', 'lentil/wavefront.py',
     "        out = np.zeros(self.shape, dtype=float)\n        for field in lentil.field.reduce(self.data):",
     "        out = np.zeros(self.shape, dtype=float)\n        for field in self.data:",
     'a wavefront whose fields overlap (segmented aperture after propagation)'),
    ('c07-pixelscale-check-removed', 'C07', 'lentil/plane.py',
     "            raise ValueError(f\"can't multiply with inconsistent pixelscales: {a_pixelscale} != {b_pixelscale}\")", "            out = a_pixelscale",
     'a plane whose pixel scale disagrees with the wavefront'),
    ('c07-focal-length-kept-when-set', 'C07', 'lentil/plane.py',
     "        wavefront.focal_length = self.focal_length\n", "        if wavefront.focal_length == np.inf:\n            wavefront.focal_length = self.focal_length\n",
     'two pupils with different focal lengths in one chain'),
    ('c07-insert-fastpath-ignores-offset', 'C07', 'lentil/field.py',
     "    if field.shape == out.shape and np.array_equal(field.offset, [0, 0]):", "    if field.shape == out.shape:",
     'an accumulator of exactly the field shape while the field has a non-zero offset'),
    # ---------------- C08
    ('c08-pupil-tilt-gives-none', 'C08', 'lentil/plane.py',
     "        lentil.pupil: lentil.pupil,\n        lentil.tilt: lentil.pupil,", "        lentil.pupil: lentil.pupil,\n        lentil.tilt: lentil.none,",
     'a Tilt plane applied to a pupil wavefront'),
    ('c08-image-multiply-marks-input-first', 'C08', 'lentil/plane.py',
     "        wavefront = super().multiply(wavefront)\n        wavefront.ptype = lentil.image\n        return wavefront",
     "        wavefront.ptype = lentil.image\n        wavefront = super().multiply(wavefront)\n        return wavefront",
     'an Image plane applied to a pupil wavefront (refused), then the wavefront is used again'),
    ('c08-propagate-from-none-allowed', 'C08', 'lentil/propagate.py',
     "        if ptype not in (lentil.pupil, lentil.image):\n            raise TypeError(\"Wavefront must have ptype 'pupil' \"\\\n                        \"or 'image'\")",
     "        if ptype not in (lentil.pupil, lentil.image, lentil.none):\n            raise TypeError(\"Wavefront must have ptype 'pupil' \"\\\n                        \"or 'image'\")",
     'propagating a wavefront that never passed a pupil or image plane'),
    ('c08-transform-on-image-refused', 'C08', 'lentil/plane.py',
     "        lentil.tilt: lentil.image,\n        lentil.transform: lentil.image\n", "        lentil.tilt: lentil.image\n",
     'a transform-type plane applied to an image wavefront'),
    # ---------------- C09
    ('c09-scratch-not-zeroed', 'C09', 'lentil/propagate.py',
     "        scratch[0:fft_shape[0], 0:fft_shape[1]] = 0\n", "",
     'a scratch buffer that is dirty (second wavelength of a loop)'),
    ('c09-tilt-guard-removed', 'C09', 'lentil/propagate.py',
     "    if _has_tilt(wavefront):\n        raise NotImplementedError", "    if False and _has_tilt(wavefront):\n        raise NotImplementedError",
     'a tilt-carrying wavefront handed to propagate_fft'),
    ('c09-grid-floor', 'C09', 'lentil/propagate.py',
     "    fft_shape = np.round(np.reciprocal(alpha)).astype(int)", "    fft_shape = np.floor(np.reciprocal(alpha)).astype(int)",
     '1/alpha slightly above n + 0.5'),
    ('c09-scratch-insert-once', 'C09', 'lentil/propagate.py',
     "        for field in wavefront.data:\n            scratch[0:fft_shape[0], 0:fft_shape[1]] = lentil.field.insert(field, scratch[0:fft_shape[0], 0:fft_shape[1]])",
     "        for field in wavefront.data[:1]:\n            scratch[0:fft_shape[0], 0:fft_shape[1]] = lentil.field.insert(field, scratch[0:fft_shape[0], 0:fft_shape[1]])",
     'a multi-field (segmented) wavefront through the scratch path'),
    # ---------------- C10
    ('c10-cached-coords-shifted-in-place', 'C10', 'lentil/fourier.py',
     "    E1 = np.exp(-2.0 * 1j * np.pi * alphar * np.outer(R+offsetr, U-shiftr)).T", "    R += offsetr\n    E1 = np.exp(-2.0 * 1j * np.pi * alphar * np.outer(R, U-shiftr)).T",
     'two dft2 calls of the same shapes, the first with a non-zero offset'),
    ('c10-plane-copy-shallow', 'C10', 'lentil/plane.py',
     "        return copy.deepcopy(self)\n\n    def fit_tilt", "        return copy.copy(self)\n\n    def fit_tilt",
     'fit_tilt() (not in place) on a shared plane, then the original is used again'),
    ('c10-read-noise-global-rng', 'C10', 'lentil/detector.py',
     "    rng = np.random.default_rng(seed)\n    noise = rng.normal(loc=0.0, scale=electrons, size=img.shape)",
     "    np.random.seed(seed if np.isscalar(seed) else None)\n    noise = np.random.normal(loc=0.0, scale=electrons, size=img.shape)",
     'a seeded read_noise call between two uses of the global generator'),
    ('c10-normalize-power-in-place', 'C10', 'lentil/util.py',
     "    array = np.asarray(array)\n    return array * np.sqrt(power/np.sum(np.abs(array)**2))",
     "    array = np.asarray(array)\n    if array.dtype == float:\n        array *= np.sqrt(power/np.sum(np.abs(array)**2))\n        return array\n    return array * np.sqrt(power/np.sum(np.abs(array)**2))",
     'normalize_power on a caller-owned float array that is used again'),
    ('c10-mesh-memo-ignores-shift', 'C10', 'lentil/helper.py',
     "def mesh(shape, shift=(0, 0), angle=0):\n    \"\"\"Generate a standard mesh.\"\"\"\n",
     "_MESH = {}\n\n\ndef mesh(shape, shift=(0, 0), angle=0):\n    \"\"\"Generate a standard mesh.\"\"\"\n    key = (tuple(shape), float(angle))\n    if key in _MESH:\n        return _MESH[key]\n    _MESH[key] = _mesh(shape, shift, angle)\n    return _MESH[key]\n\n\ndef _mesh(shape, shift=(0, 0), angle=0):\n",
     'two shapes drawn with the same array shape but different shifts in one process'),
    # ---------------- C13
    ('c13-subtract-operands-swapped', 'C13', 'lentil/radiometry.py',
     "            value = ufunc(self_value, other_value)\n", "            value = ufunc(other_value, self_value) if ufunc is np.subtract else ufunc(self_value, other_value)\n",
     'spectrum - spectrum'),
    ('c13-fill-value-ignored-for-right', 'C13', 'lentil/radiometry.py',
     "    s2_value = fill_value * np.ones(commonwave.shape)", "    s2_value = np.zeros(commonwave.shape)",
     'a non-zero fill value with ranges that do not coincide'),
    ('c13-left-sampling-uses-right', 'C13', 'lentil/radiometry.py',
     "    elif method == 'left':\n        if len(wave) != 2:\n            raise ValueError()\n        return _sampling(wave[0], method='min')",
     "    elif method == 'left':\n        if len(wave) != 2:\n            raise ValueError()\n        return _sampling(wave[1], method='min')",
     "sampling='left' with operands of different sampling"),
    ('c13-right-operand-converted-in-place', 'C13', 'lentil/radiometry.py',
     "    if s2.waveunit != waveunit:\n        s2 = s2.copy()\n        s2.to(waveunit)", "    if s2.waveunit != waveunit:\n        s2.to(waveunit)",
     'operands in different wavelength units; the right operand is used again afterwards'),
    ('c13-scalar-op-shares-value-buffer', 'C13', 'lentil/radiometry.py',
     "                value = ufunc(self.value, other)\n", "                value = ufunc(self.value, other, out=self.value) if self.value.dtype == float and np.ndim(other) == 0 else ufunc(self.value, other)\n",
     'spectrum (float values) combined with a scalar; the operand is used again'),
    # ---------------- C15
    ('c15-crop-open-interval', 'C15', 'lentil/radiometry.py',
     "            indx = np.where(min_wave > self.wave)\n", "            indx = np.where(min_wave >= self.wave)\n",
     'a crop whose lower bound is exactly a sample'),
    ('c15-trim-keeps-only-above-tol', 'C15', 'lentil/radiometry.py',
     "        self.wave = self.wave[index_min:index_max+1]\n        self.value = self.value[index_min:index_max+1]",
     "        keep = self.value/max(self.value) > tol\n        keep[index_min] = keep[index_max] = True\n        self.wave = self.wave[keep]\n        self.value = self.value[keep]",
     'a spectrum with a dip below the tolerance between its ends'),
    ('c15-preserve-power-wrong-span', 'C15', 'lentil/radiometry.py',
     "            norm_factor = spectrum.integrate(np.min(wave), np.max(wave), method=interp_method)/np.sum(bins)",
     "            norm_factor = spectrum.integrate(method=interp_method)/np.sum(bins)",
     'power-preserving bins over a sub-range of the spectrum'),
    ('c15-append-assigns-value-first', 'C15', 'lentil/radiometry.py',
     "            self.wave = np.append(self.wave, other.wave)\n            self.value = np.append(self.value, other.value)",
     "            self.value = np.append(self.value, other.value)\n            self.wave = np.append(self.wave, other.wave)",
     'an in-place append that is refused by the wavelength check (equal-length, interleaved grids)'),
    # ---------------- C18
    ('c18-dark-current-floor-dropped', 'C18', 'lentil/detector.py',
     "    dark = np.floor(rate*np.ones(shape)*fpn)", "    dark = rate*np.ones(shape)*fpn",
     'a non-integer dark rate'),
    ('c18-psd-rms-over-whole-array', 'C18', 'lentil/wfe.py',
     "    opd = opd * np.sqrt(np.count_nonzero(opd)/np.sum(np.abs(opd)**2)) * rms", "    opd = opd * np.sqrt(opd.size/np.sum(np.abs(opd)**2)) * rms",
     'a mask that does not fill its array'),
    ('c18-psd-generator-cached', 'C18', 'lentil/wfe.py',
     "    rng = np.random.default_rng(seed)\n", "    rng = _RNG.setdefault(repr(seed), np.random.default_rng(seed))\n",
     'power_spectrum called twice with the same seed in one process'),
    ('c18-dark-fpn-from-global-rng', 'C18', 'lentil/detector.py',
     "        rng = np.random.default_rng(seed)\n        fpn = rng.lognormal(mean=1.0, sigma=fpn_factor, size=shape)",
     "        if seed is not None:\n            np.random.seed(seed)\n        fpn = np.random.lognormal(mean=1.0, sigma=fpn_factor, size=shape)",
     'a seeded dark frame with pattern noise between two uses of the global generator'),
    ('c18-shot-noise-small-seed-collision', 'C18', 'lentil/detector.py',
     "    rng = np.random.default_rng(seed)\n\n    if method == 'poisson':", "    rng = np.random.default_rng(seed if seed is None or np.ndim(seed) else int(seed) // 2)\n\n    if method == 'poisson':",
     'two different integer seeds 2k and 2k+1'),
]
EXTRA_PRELUDE = {'c18-psd-generator-cached': ('lentil/wfe.py', "__all__ = ['power_spectrum', 'translation_defocus']\n", "__all__ = ['power_spectrum', 'translation_defocus']\n\n_RNG = {}\n")}

NEUTRAL = [
    ('n-cache-removed', 'C10', 'lentil/fourier.py', "@functools.lru_cache(maxsize=32)\ndef _dft2_coords", "def _dft2_coords", ['C10', 'C09', 'C04', 'C07']),
    ('n-cache-resized', 'C10', 'lentil/fourier.py', "@functools.lru_cache(maxsize=32)", "@functools.lru_cache(maxsize=3)", ['C10', 'C09']),
    ('n-plane-copies-inputs', 'C10', 'lentil/plane.py', "        self._amplitude = np.asarray(amplitude)\n        self._opd = np.asarray(opd)",
     "        self._amplitude = np.array(amplitude)\n        self._opd = np.array(opd)", ['C10', 'C07', 'C04', 'C08']),
    ('n-field-merges-first', 'C07', 'lentil/wavefront.py', "        out = np.zeros(self.shape, dtype=complex)\n        for field in self.data:",
     "        out = np.zeros(self.shape, dtype=complex)\n        for field in lentil.field.reduce(self.data):", ['C07', 'C04', 'C09']),
    ('n-insert-with-add-out', 'C07', 'lentil/field.py', "        out[out_slice] += (np.abs(field.data[field_slice]**2) * weight)",
     "        np.add(out[out_slice], np.abs(field.data[field_slice]**2) * weight, out=out[out_slice])", ['C07', 'C10']),
    ('n-spectrum-arith-copies-wave', 'C13', 'lentil/radiometry.py', "            wave = self.wave\n            try:", "            wave = self.wave.copy()\n            try:", ['C13', 'C10', 'C15']),
    ('n-fields-appended-reversed', 'C07', 'lentil/plane.py', "        for field in data:\n            for n, s in enumerate(self._slice):",
     "        for field in reversed(data):\n            for n, s in enumerate(self._slice):", ['C07', 'C04', 'C09', 'C10']),
    ('n-spectrum-crop-with-mask', 'C15', 'lentil/radiometry.py', "        if min_wave > self.wave[0]:\n            indx = np.where(min_wave > self.wave)\n            self.wave = np.delete(self.wave, indx)\n            self.value = np.delete(self.value, indx)",
     "        if min_wave > self.wave[0]:\n            keep = self.wave >= min_wave\n            wave, value = self.wave[keep], self.value[keep]\n            self.wave = wave\n            self.value = value", ['C15']),
    ('n-ptype-table-as-function', 'C08', 'lentil/plane.py', "    if plane_ptype in _mul_ptype_table[wavefront_ptype].keys():\n        return True\n    else:\n        return False",
     "    return _mul_ptype_table[wavefront_ptype].get(plane_ptype) is not None", ['C08']),
    ('n-seeded-models-use-generator-class', 'C18', 'lentil/detector.py', "    rng = np.random.default_rng(seed)\n    noise = rng.normal(loc=0.0, scale=electrons, size=img.shape)",
     "    rng = np.random.Generator(np.random.PCG64(seed))\n    noise = rng.normal(loc=0.0, scale=electrons, size=img.shape)", ['C18', 'C10']),
]


def build(entries, outdir, neutral=False):
    kept = 0
    for e in entries:
        if neutral:
            mid, prop, path, old, new, checks = e
            needs = 'must not alarm'
        else:
            mid, prop, path, old, new, needs = e
            checks = [prop]
        d = tempfile.mkdtemp(prefix='lsim_mk_', dir='/tmp')
        root = os.path.join(d, 'repo')
        try:
            shutil.copytree('/repo', root, ignore=shutil.ignore_patterns('__pycache__', '*.egg-info', '.pytest_cache'))
            edits = [(path, old, new)]
            if mid in EXTRA_PRELUDE:
                edits.append(EXTRA_PRELUDE[mid])
            for (pth, o, n) in edits:
                f = os.path.join(root, pth)
                s = open(f).read()
                if s.count(o) != 1:
                    print('%-40s SKIP: anchor found %d times' % (mid, s.count(o)))
                    raise KeyError
                open(f, 'w').write(s.replace(o, n))
            diff = subprocess.run(['git', '-C', root, 'diff'], capture_output=True, text=True).stdout
            ok = False
            for attempt in range(2):
                p = subprocess.run(['/venv/bin/python', '-m', 'pytest', '-q', '-p', 'no:cacheprovider', '-x'], cwd=root, capture_output=True, text=True)
                if p.returncode == 0:
                    ok = True
                    break
            if not ok:
                print('%-40s DROPPED: test suite fails (%s)' % (mid, p.stdout.strip().splitlines()[-1][:80] if p.stdout.strip() else '?'))
                continue
            dst = os.path.join(V, outdir, mid)
            os.makedirs(dst, exist_ok=True)
            open(os.path.join(dst, 'patch.diff'), 'w').write(diff)
            json.dump({'property': prop, 'checks': checks, 'origin': 'hand-written (tools/mkmutants.py)', 'needs': needs,
                       'suite': '146 tests pass with the patch applied', 'file': path}, open(os.path.join(dst, 'meta.json'), 'w'), indent=1)
            kept += 1
            print('%-40s kept' % mid)
        except KeyError:
            pass
        finally:
            shutil.rmtree(d, ignore_errors=True)
    return kept


if __name__ == '__main__':
    which = sys.argv[1] if len(sys.argv) > 1 else 'all'
    if which in ('all', 'mutants'):
        print('mutants kept:', build(MUTANTS, 'mutants'))
    if which in ('all', 'neutral'):
        print('neutral kept:', build(NEUTRAL, 'neutral', neutral=True))
