#!/venv/bin/python
"""Developer helper: confirm a sub-agent's seeded change in a scratch copy of /repo and file it under /verif/seeded/<id>/.

usage: tools/confirm_seeded.py <property> <source dir with patch.diff demo.py notes.md> <id>

Confirms, in a scratch copy under /tmp (removed afterwards): the patch applies to /repo HEAD; the full pinned suite passes with
it; demo.py exits 1 with the patch and 0 without.  Only then is the change kept.
"""
import json
import os
import shutil
import subprocess
import sys
import tempfile

V = os.path.dirname(os.path.dirname(os.path.abspath(__file__)))


def sh(cmd, cwd=None, env=None, timeout=1200):
    p = subprocess.run(cmd, cwd=cwd, env=env, capture_output=True, text=True, timeout=timeout)
    return p.returncode, (p.stdout + p.stderr)


def main():
    prop, src, mid = sys.argv[1:4]
    d = tempfile.mkdtemp(prefix='lsim_seed_', dir='/tmp')
    root = os.path.join(d, 'repo')
    ran = []
    try:
        shutil.copytree('/repo', root, ignore=shutil.ignore_patterns('__pycache__', '*.egg-info', '.pytest_cache'))
        env = dict(os.environ, LENTIL_ROOT=root, PYTHONDONTWRITEBYTECODE='1')
        demo = os.path.join(src, 'demo.py')
        rc0, out0 = sh(['/venv/bin/python', demo], cwd=root, env=env)
        ran.append('pristine: LENTIL_ROOT=<scratch copy of /repo HEAD> python demo.py -> exit %d' % rc0)
        rc, out = sh(['git', '-C', root, 'apply', os.path.abspath(os.path.join(src, 'patch.diff'))])
        if rc != 0:
            print('REJECT %s: patch does not apply: %s' % (mid, out[-300:]))
            return 1
        ran.append('git apply patch.diff -> ok')
        ok = False
        for attempt in range(2):
            rct, outt = sh(['/venv/bin/python', '-m', 'pytest', '-q', '-p', 'no:cacheprovider'], cwd=root)
            if rct == 0:
                ok = True
                break
        ran.append('patched: python -m pytest -q -p no:cacheprovider -> %s' % outt.strip().splitlines()[-1])
        rc1, out1 = sh(['/venv/bin/python', demo], cwd=root, env=env)
        ran.append('patched: python demo.py -> exit %d' % rc1)
        if not ok or rc0 != 0 or rc1 != 1:
            print('REJECT %s: tests_ok=%s demo_pristine=%d demo_patched=%d' % (mid, ok, rc0, rc1))
            print(out1[-400:])
            return 1
        dst = os.path.join(V, 'seeded', mid)
        os.makedirs(dst, exist_ok=True)
        for f in ('patch.diff', 'demo.py', 'notes.md'):
            if os.path.exists(os.path.join(src, f)):
                shutil.copy(os.path.join(src, f), os.path.join(dst, f))
        notes = open(os.path.join(src, 'notes.md')).read() if os.path.exists(os.path.join(src, 'notes.md')) else ''
        meta = {'property': prop, 'checks': [prop], 'origin': 'independent sub-agent given only the property text and a scratch worktree',
                'needs': notes.strip()[:1500], 'confirmed': ran,
                'lentil_head': subprocess.run(['git', '-C', '/repo', 'rev-parse', '--short', 'HEAD'], capture_output=True, text=True).stdout.strip(),
                'demo_output_patched': out1.strip()[-400:]}
        json.dump(meta, open(os.path.join(dst, 'meta.json'), 'w'), indent=1)
        print('KEPT %s' % mid)
        return 0
    finally:
        shutil.rmtree(d, ignore_errors=True)


if __name__ == '__main__':
    sys.exit(main())
