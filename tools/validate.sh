#!/bin/sh
# developer helper: validate MANIFEST.json and every evidence file against the schemas
cd "$(dirname "$0")/.." && python3-vt - <<'PY'
import json, jsonschema, glob
m = json.load(open('MANIFEST.json')); jsonschema.validate(m, json.load(open('/root/.vp/MANIFEST.schema.json'))); print('MANIFEST ok', len(m['checks']), 'checks', len(m.get('not_applicable', [])), 'n/a')
es = json.load(open('/root/.vp/EVIDENCE.schema.json'))
for f in sorted(glob.glob('evidence/*.json')):
    jsonschema.validate(json.load(open(f)), es); print(f, 'ok')
ids = {json.loads(l)['id'] for l in open('properties.jsonl')}
have = {c['property_id'] for c in m['checks']} | {n['property_id'] for n in m.get('not_applicable', [])}
print('uncovered:', sorted(ids - have), 'unknown:', sorted(have - ids))
PY
