#!/venv/bin/python
"""Developer helper: file a sub-agent's behaviour-preserving refactors under /verif/neutral/ after confirming that each applies to /repo
HEAD and that the pinned suite passes with it.   usage: tools/install_neutral.py <source dir with n1..n5> <N tag> <check ids,comma separated>"""
import json, os, shutil, subprocess, sys
src, N, checks = sys.argv[1], sys.argv[2], sys.argv[3].split(',')
head = subprocess.run(['git', '-C', '/repo', 'rev-parse', '--short', 'HEAD'], capture_output=True, text=True).stdout.strip()
for k in range(1, 6):
    d = os.path.join(src, 'n%d' % k)
    if not os.path.exists(os.path.join(d, 'patch.diff')):
        continue
    notes = open(os.path.join(d, 'notes.md')).read() if os.path.exists(os.path.join(d, 'notes.md')) else ''
    title = (notes.splitlines() or [''])[0].lstrip('# ').strip()
    name = 'n-agent-%s-n%d' % (N, k)
    dst = os.path.join('/verif/neutral', name)
    os.makedirs(dst, exist_ok=True)
    shutil.copy(os.path.join(d, 'patch.diff'), dst)
    if notes:
        shutil.copy(os.path.join(d, 'notes.md'), dst)
    tmp = '/tmp/nconf'
    shutil.rmtree(tmp, ignore_errors=True)
    shutil.copytree('/repo', tmp, ignore=shutil.ignore_patterns('__pycache__', '*.egg-info', '.pytest_cache'))
    ok = subprocess.run(['git', '-C', tmp, 'apply', os.path.join(dst, 'patch.diff')], capture_output=True).returncode == 0
    out = ''
    if ok:
        for _ in range(2):
            t = subprocess.run(['/venv/bin/python', '-m', 'pytest', '-q', '-p', 'no:cacheprovider'], cwd=tmp, capture_output=True, text=True)
            out = t.stdout.strip().splitlines()[-1]
            if t.returncode == 0:
                break
        ok = t.returncode == 0
    shutil.rmtree(tmp, ignore_errors=True)
    json.dump({'property': checks[0], 'checks': checks, 'origin': 'independent sub-agent asked for behaviour-preserving refactors that add internal state correctly (given only the property statements and a scratch worktree)',
               'needs': 'must not alarm', 'title': title, 'suite': out, 'lentil_head': head, 'file': 'see patch.diff'}, open(os.path.join(dst, 'meta.json'), 'w'), indent=1)
    print(name, 'OK' if ok else 'REJECT', out, '|', title[:100])
    if not ok:
        shutil.rmtree(dst)
