#!/venv/bin/python
"""Developer helper (never run by a check): register a minimised replay as a known or fixed finding.

usage: tools/finding.py known <replay.json> <corpus-name> "<what fails>"
       tools/finding.py fixed <replay.json> <corpus-name> <commit> "<what failed>"
"""
import json, os, shutil, sys
V = os.path.dirname(os.path.dirname(os.path.abspath(__file__)))
kind, src, name = sys.argv[1:4]
d = json.load(open(src))
v = d['violation']
dst = os.path.join('corpus', name if name.endswith('.json') else name + '.json')
shutil.copy(src, os.path.join(V, dst))
sig = json.dumps(v['sig'], sort_keys=True, separators=(',', ':'))
assert ' ' not in sig, 'signature values must not contain spaces'
fields = 'oracle=%s sig=%s replay=%s' % (v['oracle'], sig, dst)
if kind == 'known':
    line = 'known: property=%s %s :: %s' % (d['property'], fields, sys.argv[4])
else:
    line = 'fixed: property=%s %s %s :: %s' % (d['property'], sys.argv[4], sys.argv[5], fields)
with open(os.path.join(V, 'known_findings.txt'), 'a') as f:
    f.write(line + '\n')
print(line)
