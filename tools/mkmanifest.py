#!/venv/bin/python
"""Developer helper: (re)generate /verif/MANIFEST.json from the tables below."""
import json
import os
import sys

V = os.path.dirname(os.path.dirname(os.path.abspath(__file__)))
sys.path.insert(0, V)

TECH = 'deterministic simulation with fault injection: seeded search over call schedules, histories and injected faults (lsim), ddmin-minimised JSON replay'

CLAIMED = {
    'C04': dict(
        design='7.8',
        text=('Seeded deterministic simulation of the optics session with the tilt carrier as the varied dimension: one aperture per run '
              '(monolithic or 2-4 segments with a tilt of its own per segment, plus a global tilt from a hundredth of a pixel to several '
              'times the output; scalar or per-axis output pixels; oversampling 1-3; prop_shape <= shape) is imaged by the real '
              'propagate_dft through every carrier -- Tilt planes split into 1-3 elements applied in seeded and reversed order, '
              'Wavefront(tilt=), fit_tilt of the ramp-carrying OPD per segment (OPD and amplitude arrays also Fortran-ordered, transposed, '
              'strided or cropped views; copy and in-place forms), a fit / OPD-update / re-fit history, DispersiveTilt elements of trace/dispersion '
              'order 1-3 on both sides of the reference wavelength mixed with Tilt elements (also re-pointed by their owner after use), per-axis '
              'pupil sampling, output masks, one segment steered off the detector, the same fields listed in reverse order, fit / rescale / '
              're-fit histories, an FFT attempt on the tilt-carrying wavefront before the judged DFT, an in-place fit refused because the OPD cannot be written (then the plane used as it is and through the copy form), a Tilt plane re-pointed by its owner between two uses -- under cache-size faults, and compared with the eager twin (every tilt as '
              'an OPD ramp in a monolithic pupil) on the samples every Field of both evaluates. Further oracles: Field.shift and the '
              'observed window placement equal the statement\'s displacement (focal_length*angle/du*oversample per axis, +x to increasing '
              'row, +y to decreasing column) and are additive and order-independent; fit_tilt leaves zero least-squares tip/tilt, keeps '
              'the piston and OPD + recorded tilt equals the original (also for the second fit of a fit / update / re-fit history, whether the update '
              'went through the attribute or into the array the plane holds, and after rescale, which must keep the angles on record); dispersive displacements lie on the trace at the arc length the '
              'dispersion maps to the wavelength (orders 1-3, positive and negative arc lengths; the twin of a dispersive carrier gets the '
              'displacement from an independent root/arc-length solver). Exploration.'),
        note=('The eager twin is imaged by the same propagate_dft, so an error common to both sides (C02) is invisible. Comparison is on '
              'the common domain only; window positions are not judged within 1e-6 of a non-zero integer displacement. The history '
              'dimension (re-fit, ordering) is real; the rest is a differential on pure functions, as DESIGN.md section 3 says.')),
    'C07': dict(
        design='7.6',
        text=('Seeded deterministic simulation reaching wavefront states through programs: 1-4 plane multiplications (default, scalar '
              'and array planes of even/odd/non-square shapes, every amplitude/OPD/mask combination -- scalar amplitude with an array mask, mask '
              'only, no OPD, boolean / integer masks, non-contiguous arrays --, monolithic or 2-4 segment masks with overlapping bounding boxes, '
              'Tilt planes, fitted and rescaled pupils, slits, generic pupil-typed planes, the amp= alias, attribute updates, caller writes into OPD / '
              'amplitude arrays and refills of mask buffers between multiplies, all four call forms), optionally a DFT propagation (random shape, prop_shape, oversampling, output mask, per-axis pixels), an Image '
              'plane and a propagation back; series of short-lived pupils and wavefronts built, read and dropped inside one step; planes derived at the same sampling (rescale by 1, resample to the own pixel scale, copy) edited by the caller; assignments a plane may refuse. After every step the public views are read: field and intensity are compared with the dense '
              'zero-padded-plane model of the wavefront\'s documented fields (intensity == |field|^2 also where fields overlap), and '
              'insert(out, weight) is driven into accumulators of arbitrary shape (smaller, larger, other parity, missing the wavefront '
              'entirely) and arbitrary prior content (fault F2) and must leave before + weight*intensity and return the same array; every view is read '
              'again after the caller scribbled into the arrays it was handed and after a weighted insert; before '
              'any propagation the field must equal the product of the planes\' dense phasors amplitude*mask*exp(2 pi i OPD/lambda); '
              'wavelength, focal-length hand-over and the default plane are checked; planes with conflicting pixel scales are injected '
              '(fault F5) and must be refused with both operands byte-identical. Exploration.'),
        note=('Weakest fit of the eight (DESIGN.md section 3): the simulator contributes reaching diverse multi-field states and dirty / '
              'odd-shaped accumulators; the per-state check is a model comparison. States containing a one-element array field are not '
              'judged (lentil documents one-element fields as broadcastable scalars). Propagation itself is not modelled.')),
    'C08': dict(
        design='7.1',
        text=('Seeded deterministic simulation: 1-3 simulated callers run programs (<= 12 steps each) of plane multiplications '
              '(all five plane types, every public plane class, all four call forms incl. w *= p) and DFT/FFT propagations over a shared pool that '
              'starts from wavefronts built with every constructor argument (type given or omitted, focal length, pixel scale, tilt) and holds '
              'pupils with different focal lengths, planes built with the amp= alias, planes carrying the sampling a propagated wavefront has, two '
              'stops with disjoint masks (dark wavefronts), planes re-assigned by their owner before a refusal, masked propagations, '
              'interleaved by a seeded scheduler with injected refusals (biased to land right after a type transition), duplicate '
              'calls and cache/RNG perturbations. Every step is judged against the multiplication-rules table and the ptype/class '
              'table parsed at run time from the documentation; refused steps are bracketed by byte snapshots of both operands; '
              'a new wavefront has the type it was given (none when given none) and so has every plane built with an explicit ptype= object; '
              'refused type assignments, pupils without sampling information, series of planes built by name, applied once and dropped, and planes / wavefronts '
              'saved by a second interpreter with another string-hash seed and loaded here, a segmented pupil (one field per segment), and field-less wavefronts from Wavefront.empty (type by name, as an object, or omitted) are part of the programs; '
              'each caller\'s interleaved outcomes must equal its solo run. A directed prelude guarantees all 15 cells, the three '
              'propagation cases and every class x allowed type are exercised on every run. Exploration, not proof: the type '
              'machine is finite (and the prelude covers it completely), the surrounding programs are sampled.'),
        note=('Trusts: the two documentation tables as the specification (parse failure is a harness error, not a pass); the '
              'generator\'s abstract model only for keeping programs pixel-scale compatible (verdicts use the live objects\' '
              'public ptype). Program length bound 12 per caller. Rotate and Flip are genuinely broken (8 known findings).')),
    'C09': dict(
        design='7.3',
        text=('Seeded deterministic simulation of a broadband exposure: 1-2 callers each loop over 2-8 wavelengths (seeded order, FFT '
              'grids of either parity and both growing and shrinking between iterations, oversampling 1-3, scalar or commensurate per-axis '
              'pixel scales, monolithic or segmented pupils of either parity) through propagate_fft with ONE scratch buffer reused across '
              'the loop: pre-filled with NaN/inf/garbage, stale from the previous wavelength afterwards, sized exactly as '
              'lentil.scratch_shape advertises, larger, or one short, C- or Fortran-ordered, single-precision (compared at 2e-5) or a window of a larger work area; refused calls '
              '(oversize shape -- also kept in a caller-owned integer array --, tilt-carrying wavefront from a Tilt plane / Wavefront(tilt=) / fitted pupil / '
              'DispersiveTilt / Grism, an image-plane result given tilt and sent back, short scratch), whole-grid images sent back to a pupil plane and judged like any hop, an out-of-regime quick look on the same wavefront first, the field view read and edited before a call are injected inside the loop, propagations are duplicated and the '
              'scratch re-dirtied between duplicates. Oracles: scratch result == no-scratch result; both == the real propagate_dft '
              'evaluated at the wavelength the FFT result reports; result metadata; acceptance/refusal set; refusals leave scratch and '
              'wavefront bytes unchanged; earlier results stay byte-identical while the scratch is reused (no aliasing). Exploration.'),
        note=('The DFT reference is lentil\'s own propagate_dft: an error common to both propagators is C01/C02 territory and invisible here. '
              '1/alpha is generated within 0.3 of an integer so the grid size never depends on rounding. Pupils no larger than the grid only.')),
    'C10': dict(
        design='7.2',
        text=('Seeded deterministic simulation of 2-4 callers sharing caller-owned arrays, planes, spectra and wavefronts: pipeline fragments '
              '(plane multiply, DFT/FFT propagation with scratch, tilt fitting both modes, rescale/resample/copy, dft2/idft2 with repeated '
              'shapes and out=, Zernike, array utilities, shapes, detector chain, seeded noise models, spectrum arithmetic and queries, a shared '
              'dispersive element used at several wavelengths, documented in-place operations on objects derived from shared ones, '
              'one-argument-varied repeats of calls, calls refused for invalid arguments, attribute-update paths, arguments kept in caller-owned '
              'arrays (also the optional coordinate grids of the Zernike family), derivations through Material / path_* edited in place, Bayer collection at two oversampling factors, degenerate data (no signal, zero-sum, empty mask, a negative QE sample, complex frames), and calls generated from a type-aware catalogue of the whole public surface with optional arguments, dtypes, layouts and '
              'containers varied) are '
              'interleaved by a seeded scheduler together with cache-size changes/clears, global-RNG draws and reseeds, duplicate calls and '
              '(one run in four) read-only caller arrays. Oracles: byte snapshot of every store entry around every call (alias-aware '
              'whitelist for documented in-place calls) together with the process-wide policy no call may change (numpy error state and '
              'print options, warnings filters, recursion limit, environment); repeat = first; each caller\'s interleaved outcome sequence = its solo run in a '
              'pristine world; global RNG state unchanged around every seeded/deterministic call; construct-then-fit vs fit/update/refit '
              'paths to the same plane state image identically (premise checked from public state); C10.fresh: sampled calls are re-issued on '
              'public-state clones of their arguments in a pristine process (forked from a helper that never executes lentil) and must give the '
              'same outcome -- "a result depends only on the current arguments" taken literally; and every chunk\'s last run is '
              're-executed as the first act of a freshly forked process (cold = warm), which detects cross-call global state the simulator '
              'does not know by name. Exploration: sampled histories, not all.'),
        note=('Trusts numpy/scipy; single-threaded BLAS so that same-process repeats are bitwise equal (re-validated by selftest-determinism). '
              'Interleaving is at public-API-call granularity (lentil has no threads or locks; pre-emption inside a call would test a '
              'thread-safety property nobody stated). cosmic_rays, which consumes the global RNG by design, is exercised under C18; smear(angle=None), the other documented unseeded consumer, is always given its angle here (C19 is not applicable).')),
    'C13': dict(
        design='7.4',
        text=('Seeded deterministic simulation of 1-3 callers over a shared pool of 2-5 spectra (identical, nested, overlapping, disjoint '
              'ranges; uniform and non-uniform grids; unitless and flux-density values; m, um, nm, angstrom): histories of the five binary '
              'operators in method and dunder form with every sampling (min/left/right/float), interpolation (linear/quadratic/cubic) and fill '
              'option, scalar / vector / reflected operands and operands that must be refused (wrong-length vector, non-numeric), edits of '
              'results, and -- the history dimension -- to(unit) calls by the owner on shared spectra between uses, followed by a repeat of an '
              'earlier operation and by operand-swapped twins; operands with an edit history, integer-typed spectra, list / tuple / ndarray '
              'operands, augmented-assignment forms, the products a Material hands out (read again after the caller edited the previous answer), value-unit conversions of flux densities and Blackbodies by their owner, catalogue loops of short-lived operands, callers writing in place into result and operand arrays before an operation is repeated. Oracles: result == operator applied to the operands\' interpolated values on '
              'the uniform union grid (list model + scipy interp1d, executed from the operands\' public pre-state); scalar/vector ops '
              'element-wise on the unchanged grid; a+b == b+a and a*b == b*a as physical spectra; same operation after a representation '
              'change gives the same physical spectrum; every spectrum in the store other than a documented edit target is byte-identical '
              '(representation included) after every call; result is a new object (neither an operand nor any spectrum handed out before); other callers\' results equal their solo runs '
              'numerically. Exploration.'),
        note=('Comparisons "as physical spectra" are made only where the left operand\'s value-unit label is a correct label for the result '
              '(unitless with unitless; density*/unitless; density+-density) and fill value 0 when densities are involved; grid length is '
              'judged only when span/dwave is not within 1e-6 of an integer; grid points within 1e-9 of an operand end are not compared. '
              'Known finding: unitless*density loses the density label.')),
    'C15': dict(
        design='7.5',
        text=('Seeded deterministic simulation of a classical stateful object: an editor applies histories (4-25 steps) of '
              'crop/trim/pad/append(copy or in place)/resample/to to 1-3 spectra (uniform and non-uniform grids, unitless and flux-density '
              'values, all four wavelength units) while a reader (same or second caller) issues integrate/bin/sample and composite '
              'linearity/additivity checks between any two edits (also in foreign units, with one option flipped, after value assignment or in-place '
              'writes through the value array), sometimes scaling in place the array a query returned and asking again; about 30% of edits are ones that must be refused (unsorted, duplicated or '
              'non-positive resample grid, a bare number as the grid, touching/overlapping append, bad unit or method), crop limits a few ulp from live samples, integer-typed wavelength grids, non-finite pads taken off again -- the library\'s analogue of a crash between two '
              'writes -- and accepted crops/trims/pads are duplicated. After EVERY step, accepted or refused, every spectrum must be '
              'well-formed (strictly increasing positive wavelengths, one value per wavelength, asarray() usable); each edit\'s post-state is '
              'predicted by a list model from the object\'s own public pre-state (closed-range crop, first-to-last-above-tolerance trim, '
              'pad only outside and old samples untouched, append = concatenation, resample = interpolation of old samples, refused edit = '
              'unchanged); trapezoid integration is compared with the trapezoid sum, checked for linearity and additivity at sample points; '
              'bins are checked for count, sign, exactness on linear data and power preservation. Exploration.'),
        note=('Arguments are generated exactly on or clearly between samples so no verdict depends on rounding. Empty-result crops, '
              'normalising a zero total (0/0) and Simpson binning on non-uniform centres/data are outside the statement and not judged. '
              'scipy.integrate.simpson is trusted as reference for Simpson totals.')),
    'C18': dict(
        design='7.9',
        text=('Seeded deterministic simulation in which the simulator owns numpy\'s global random generator: 2-4 callers issue seeded '
              'model calls (Poisson and Gaussian shot noise, read noise, dark current with/without fixed-pattern noise, rule-07 dark '
              'current, power-spectrum surface error on square and non-square masks of several dtypes; seeds as ints, numpy integers, uint32 arrays, lists '
              'and tuples; shapes as lists, tuples and arrays; caller-owned full-shape rate maps; one seed list handed to several models; a high-dynamic-range frame; zero-noise readouts; read-noise statistics over 1 500 seeds on regions of 1-4 pixels; every seeded model also evaluated in a second interpreter with another string-hash seed) and unseeded cosmic-ray frames in '
              'an interleaved schedule while environment events draw from or reseed the global generator between steps, calls are '
              'duplicated, and signals that must be refused (a negative pixel -- also one that is tiny next to the frame peak --, an all-negative '
              'frame, a pixel above 9.22e18, a frame its owner made illegal in place between two calls) and dark rates at floating-point edges (just '
              'below an integer, 2**40+1), seeds that differ only beyond bit 32 / 64, one-argument twins of every call, frames with zero-signal '
              'pixels and one megapixel-plus frame are injected; frames a caller still holds must not change when anybody draws again; sampled '
              'calls are compared with the same call in a pristine process; every array argument is snapshotted around every call and no result may '
              'share memory with an argument. Oracles: a seeded '
              'result is bit-identical across repeats, across positions in the schedule and across global-RNG states (interleaved pass vs '
              'solo pass started from a different global seed); the global state is untouched by every seeded call; different seeds give '
              'different frames; support (integer, non-negative, floor(rate), zero outside the mask, exact RMS, refusals in both shot-noise '
              'methods); 7-sigma moment checks on 4096-pixel frames; cosmic-ray frames have the requested shape, are finite and '
              'non-negative and are a deterministic function of the global state they start from (re-executed from the saved state). '
              'Exploration.'),
        note=('Moment checks are statistical (7 standard errors; an alarm replays bit-for-bit because seeds derive from VERIF_SEED). '
              'Gaussian shot noise is judged only in its documented regime (signal >= 1000). seed=None (OS entropy) is never used.')),
}

NA = {
    'C01': 'pure function of (f, alpha, shape, shift, offset, unitary): no schedule, clock, fault or history to simulate; its out=/cache side clauses are exercised as history-independence inside the C10 session only (DESIGN.md section 3)',
    'C02': 'absolute value of a pure function of the wavefront and sampling arguments; every propagation oracle here is a differential of real code against real code, so an error common to both sides is out of reach (DESIGN.md section 3)',
    'C03': 'metamorphic relation between two descriptions of the same pure computation; no buffer, history, refusal, ordering or random-source clause. Segmentation regressions surface under C07/C04 where segmented apertures are part of the vocabulary (DESIGN.md sections 3, 7.7)',
    'C05': 'Parseval/energy statements about a pure function; conservation over a history does not arise (DESIGN.md section 3)',
    'C06': 'pure functions of shapes and offsets (field/extent bookkeeping); errors that surface through Wavefront.field/intensity/insert are reported under C07 (DESIGN.md section 3)',
    'C11': 'pure function of mask, index and coordinates (Zernike modes); nothing for a scheduler or fault injector to act on',
    'C12': 'pure functions (Zernike fit/compose/remove); nothing for a scheduler or fault injector to act on',
    'C14': 'finite conversion tables and pure functions (units, Planck law); nothing for a scheduler or fault injector to act on',
    'C16': 'pure per-pixel arithmetic (detector chain); its one operand clause (input frame untouched) is an instance of C10 and is checked there (DESIGN.md section 3)',
    'C17': 'pure function returning a new plane (rescale/resample); "leaves the original untouched" is a C10 observation and is checked there',
    'C19': 'pure functions of the image (pixel/jitter/smear blurs); smear(angle=None) reading the global RNG is observed under C10/C18 only as an unseeded consumer',
    'C20': 'pure functions of shapes (array geometry helpers); nothing for a scheduler or fault injector to act on',
}

PENDING = {}
PLANNED = {'C04': '7.8', 'C07': '7.6', 'C08': '7.1', 'C09': '7.3', 'C10': '7.2', 'C13': '7.4', 'C15': '7.5', 'C18': '7.9'}


def main():
    from lsim import scenarios
    built = set(scenarios.properties())
    checks = []
    for pid in sorted(PLANNED):
        if pid not in built or pid not in CLAIMED:
            PENDING[pid] = 'claimed in DESIGN.md section %s but its check is still under construction and not yet registered' % PLANNED[pid]
            continue
        c = CLAIMED[pid]
        checks.append({
            'property_id': pid,
            'quick_cmd': './check %s quick' % pid,
            'thorough_cmd': './check %s thorough' % pid,
            'evidence_file': 'evidence/%s.json' % pid,
            'replay_cmd_template': './check %s --replay {path}' % pid,
            'engine': 'lsim',
            'level_claimed': {'category': 'exploration', 'text': c['text'], 'design_ref': 'DESIGN.md section ' + c['design']},
            'level_note': c['note'],
            'technique': TECH,
        })
    na = [{'property_id': k, 'reason': v} for k, v in sorted({**NA, **PENDING}.items())]
    fixes = [l.split()[2] for l in open(os.path.join(V, 'known_findings.txt')) if l.startswith('fixed:')]
    m = {
        'version': 1,
        'setup_cmd': 'mkdir -p evidence replays && /venv/bin/python -c "import numpy, scipy, sys; sys.path.insert(0, \'/repo\'); import lentil"',
        'hooks': {
            'guard': 'LENTIL_VERIF',
            'enable': 'no hooks exist: every seam the simulator needs is already reachable from outside (lentil.fourier._dft2_coords is re-wrapped by the simulator, numpy global RNG via np.random.seed/get_state, buffers via public out=/scratch=/insert arguments); checks import lentil straight from /repo\'s working tree',
            'baseline_off_cmd': 'cd /repo && /venv/bin/python -m pytest -ra -q -p no:cacheprovider --timeout=900 --continue-on-collection-errors',
            'source_commits': [],
            'add_only': True,
        },
        'engines': [{'name': 'lsim', 'path': 'lsim/', 'serves_properties': [c['property_id'] for c in checks],
                     'kind_free_text': 'hand-written deterministic simulator for a single-threaded library: seeded generator of multi-caller API programs + environment faults, interpreter over the real lentil with simulator-owned global state (DFT coordinate cache, numpy global RNG, caller buffers), reference models as oracles, fork-per-chunk runner, ddmin minimiser, JSON replay files'}],
        'checks': checks,
        'not_applicable': na,
        'notes': ('Known findings and fixed defects: known_findings.txt (corpus replays under corpus/). fix: commits in /repo: %s. '
                  'Exit protocol: 0 held (KNOWN-FINDING lines allowed), 1 VIOLATION reproduced from a minimised replay in a fresh interpreter, '
                  '2 HARNESS-ERROR. Self-tests: ./check selftest-determinism, ./check selftest-mutants.' % (', '.join(sorted(set(fixes))) or 'none')),
    }
    with open(os.path.join(V, 'MANIFEST.json'), 'w') as f:
        json.dump(m, f, indent=1)
    print('wrote MANIFEST.json: %d checks, %d not applicable' % (len(checks), len(na)))


if __name__ == '__main__':
    main()
