"""Self-tests of the machinery (DESIGN.md section 8).

  ./check selftest-determinism [Cxx ...]   same seed => same event list, same history, same verdicts: twice in one process,
                                           with 1 and 16 workers, and in fresh interpreters under another PYTHONHASHSEED
  ./check selftest-mutants [dir ...]       every patch under mutants/ and seeded/ (applied to a scratch copy of /repo outside
                                           /repo and /verif, removed afterwards) must be reported by the check(s) named in its meta
  ./check selftest-neutral                 every patch under neutral/ (property-preserving refactors) must NOT be reported
  ./check selftest-digest Cxx N            (internal) print per-run digests as JSON
"""
import glob
import hashlib
import json
import os
import shutil
import subprocess
import sys
import tempfile
import time

from . import runner, scenarios
from .core import vkey

VERIF = runner.VERIF


def run_digests(prop, indices, verif_seed=0):
    L = runner.load_lentil()
    scn = scenarios.get(None, prop)
    runner.prepare(scn, L)
    out = {}
    for i in indices:
        run = runner.make_run(scn, prop, verif_seed, i)
        gen = hashlib.sha1(json.dumps(run, sort_keys=True).encode()).hexdigest()[:12]
        res = scn.execute(L, run)
        out[str(i)] = [gen, res['hist'], res['steps'], sorted(vkey(v['oracle'], v['sig']) for v in res['violations']),
                       sorted(res['probes'].items())]
    return out


def _digest_task(t):
    return run_digests(t['prop'], t['indices'], t['seed'])


def determinism(props, n=40):
    ok = True
    for prop in props:
        t0 = time.time()
        idx = list(range(n))
        a = run_digests(prop, idx)
        b = run_digests(prop, idx)                      # warm repeat, same process
        same_proc = a == b
        chunks = [idx[i:i + 5] for i in range(0, n, 5)]
        tasks = [{'prop': prop, 'indices': c, 'seed': 0} for c in chunks]
        w1 = {}
        for r in runner.fork_map(_digest_task, tasks, 1, 600):
            w1.update(r)
        w16 = {}
        for r in runner.fork_map(_digest_task, tasks, 16, 600):
            w16.update(r)
        fresh = {}
        for hs in ('0', '1', '12345'):
            env = dict(os.environ)
            env.pop('LSIM_PINNED', None)
            env['LSIM_HASHSEED'] = hs
            p = subprocess.run([sys.executable, os.path.join(VERIF, 'lsim', 'main.py'), 'selftest-digest', prop, str(n)],
                               capture_output=True, text=True, env=env, timeout=1800)
            try:
                fresh[hs] = json.loads(p.stdout.strip().splitlines()[-1])
            except Exception:
                fresh[hs] = {'error': p.stdout[-300:] + p.stderr[-300:]}
        a_j = json.loads(json.dumps(a))
        verdict = {'same_process_repeat': same_proc, 'workers_1': w1 == a, 'workers_16': w16 == a,
                   'fresh_hashseed_0': fresh['0'] == a_j, 'fresh_hashseed_1': fresh['1'] == a_j, 'fresh_hashseed_12345': fresh['12345'] == a_j}
        good = all(verdict.values())
        ok &= good
        print('determinism %s runs=%d %s  %s  (%.1fs)' % (prop, n, 'OK' if good else 'DIVERGED', json.dumps(verdict), time.time() - t0))
        if not good:
            for k in sorted(a_j):
                for name, other in (('fresh1', fresh['1']), ('w16', json.loads(json.dumps(w16))), ('repeat', json.loads(json.dumps(b)))):
                    if other.get(k) != a_j[k]:
                        print('   run %s differs in %s: %s vs %s' % (k, name, str(a_j[k])[:200], str(other.get(k))[:200]))
                        break
    return 0 if ok else 1


def scratch_copy(patch):
    """Copy /repo (without .git) to a scratch directory outside /repo and /verif and apply `patch`."""
    d = tempfile.mkdtemp(prefix='lsim_scratch_', dir=os.environ.get('VERIF_SCRATCH', '/tmp'))
    root = os.path.join(d, 'repo')
    shutil.copytree('/repo', root, ignore=shutil.ignore_patterns('.git', '__pycache__', '*.egg-info', '.pytest_cache'))
    p = subprocess.run(['git', 'apply', '--unsafe-paths', '--directory=' + root, os.path.abspath(patch)], cwd='/', capture_output=True, text=True)
    if p.returncode != 0:
        p = subprocess.run(['patch', '-p1', '-d', root, '-i', os.path.abspath(patch)], capture_output=True, text=True)
    if p.returncode != 0:
        shutil.rmtree(d, ignore_errors=True)
        raise RuntimeError('cannot apply %s: %s %s' % (patch, p.stdout[-300:], p.stderr[-300:]))
    return d, root


def run_check_against(root, prop, tier='quick', runs=None):
    env = dict(os.environ)
    env['VERIF_LENTIL_ROOT'] = root
    env['LSIM_NO_EVIDENCE'] = '1'
    env['LSIM_REPLAY_DIR'] = os.path.join(os.path.dirname(root), 'replays')
    if runs:
        env['VERIF_RUNS'] = str(runs)
    env.pop('LSIM_PINNED', None)
    p = subprocess.run([sys.executable, os.path.join(VERIF, 'lsim', 'main.py'), prop, tier], capture_output=True, text=True, env=env, timeout=3600)
    viol = [l for l in p.stdout.splitlines() if l.startswith('VIOLATION') or l.strip().startswith('oracle=')]
    return p.returncode, viol, p.stdout


def patch_catalogue(dirs):
    items = []
    for d in dirs:
        for meta in sorted(glob.glob(os.path.join(VERIF, d, '*', 'meta.json'))):
            m = json.load(open(meta))
            m['dir'] = os.path.dirname(meta)
            m['patch'] = os.path.join(m['dir'], 'patch.diff')
            items.append(m)
    return items


def mutants(dirs, expect_alarm=True):
    items = patch_catalogue(dirs)
    only = os.environ.get('LSIM_ONLY')
    if only:
        items = [m for m in items if any(o in os.path.basename(m['dir']) for o in only.split(','))]
    results = []
    ok = True
    for m in items:
        t0 = time.time()
        try:
            d, root = scratch_copy(m['patch'])
        except RuntimeError as e:
            print('%-40s CANNOT-APPLY %s' % (os.path.basename(m['dir']), e))
            ok = False
            continue
        try:
            caught = []
            lines = []
            broken = False
            props = m.get('checks') or [m['property']]
            for prop in props:
                rc, viol, out = run_check_against(root, prop, runs=m.get('runs'))
                if rc == 1:
                    caught.append(prop)
                    lines += [v.strip() for v in viol if 'oracle=' in v][:3]
                elif rc == 2:
                    broken = True
                    lines.append('HARNESS-ERROR in %s: %s' % (prop, [l for l in out.splitlines() if 'HARNESS' in l][:1]))
        finally:
            shutil.rmtree(d, ignore_errors=True)
        good = bool(caught) if expect_alarm else (not caught and not broken)     # a harness error under a neutral refactor is a broken check
        ok &= good
        # observed by the search but not replayable (address-dependent behaviour, DESIGN.md section 15): exit 2, not a VIOLATION line
        unreplayable = expect_alarm and not caught and broken and any('reproduce' in x for x in lines)
        status = (('CAUGHT' if caught else ('OBSERVED-NOT-REPLAYABLE' if unreplayable else 'MISSED')) if expect_alarm
                  else ('FALSE-ALARM' if caught else ('BROKEN' if broken else 'QUIET')))
        results.append({'id': os.path.basename(m['dir']), 'property': m['property'], 'caught_by': caught, 'oracles': lines[:4],
                        'ok': good, 'status': status, 'wall_s': round(time.time() - t0, 1)})
        print('%-40s %-4s %s by=%s %s (%.0fs)' % (os.path.basename(m['dir']), m['property'], status,
                                                   ','.join(caught) or '-', '; '.join(x[:110] for x in lines[:2]), time.time() - t0))
        sys.stdout.flush()
    os.makedirs(os.path.join(VERIF, 'selftest'), exist_ok=True)
    name = ('mutants' if expect_alarm else 'neutral') + ('-' + '-'.join(dirs) if dirs != ['mutants', 'seeded'] and expect_alarm else '') + \
        ('.partial' if only else '') + '.json'
    with open(os.path.join(VERIF, 'selftest', name), 'w') as f:
        json.dump({'lentil_head': subprocess.run(['git', '-C', '/repo', 'rev-parse', '--short', 'HEAD'], capture_output=True, text=True).stdout.strip(),
                   'results': results}, f, indent=1)
    n_ok = sum(1 for r in results if r['ok'])
    print('%s: %d/%d as expected' % ('mutants' if expect_alarm else 'neutral', n_ok, len(results)))
    return 0 if ok else 1


def main(argv):
    cmd = argv[0]
    if cmd == 'selftest-digest':
        print(json.dumps(run_digests(argv[1], list(range(int(argv[2]))))))
        return 0
    if cmd == 'selftest-determinism':
        props = argv[1:] or scenarios.properties()
        return determinism(props, int(os.environ.get('LSIM_SELFTEST_RUNS', '40')))
    if cmd == 'selftest-mutants':
        return mutants(argv[1:] or ['mutants', 'seeded'], expect_alarm=True)
    if cmd == 'selftest-neutral':
        return mutants(argv[1:] or ['neutral'], expect_alarm=False)
    print(__doc__)
    return 2
