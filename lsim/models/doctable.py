"""Reference model for C08: the tables the documentation prints, parsed at run time from the
tree under test (the property says "exactly as the documentation tabulates")."""
import os
import re

from ..core import HarnessError

PTYPES = ('none', 'pupil', 'image', 'tilt', 'transform')
WTYPES = ('none', 'pupil', 'image')


class DocTable:
    def __init__(self, root):
        self.mul = self._parse_mul(os.path.join(root, 'docs/user/fundamentals/wavefront.rst'))
        self.classes = self._parse_classes(os.path.join(root, 'docs/user/fundamentals/planes.rst'))

    @staticmethod
    def _parse_mul(path):
        try:
            with open(path) as fh:
                text = fh.read()
        except OSError as e:
            raise HarnessError('cannot read %s: %s' % (path, e))
        m = re.search(r'Multiplication rules\n=+\n(.*?)\n\S[^\n]*\n=+\n', text, re.S)
        if not m:
            raise HarnessError('no "Multiplication rules" section in %s' % path)
        cols = None
        table = {}
        for line in m.group(1).splitlines():
            if not line.startswith('|'):
                continue
            cells = [c.strip() for c in line.strip().strip('|').split('|')]
            names = [re.sub(r'[`\s]', '', c) for c in cells]
            if len(cells) == 4 and all(n in WTYPES for n in names[1:]) and names[0] not in PTYPES:
                cols = names[1:]
                continue
            if len(cells) == 4 and names[0] in PTYPES and cols:
                for w, cell, raw in zip(cols, names[1:], cells[1:]):
                    if cell in WTYPES:
                        table[(w, names[0])] = cell
                    elif 'notallowed' in cell.lower():
                        table[(w, names[0])] = None
                    else:
                        raise HarnessError('unparseable cell %r in %s' % (raw, path))
        if len(table) != 15:
            raise HarnessError('multiplication table has %d cells, expected 15 (%s)' % (len(table), path))
        return table

    @staticmethod
    def _parse_classes(path):
        try:
            with open(path) as fh:
                text = fh.read()
        except OSError as e:
            raise HarnessError('cannot read %s: %s' % (path, e))
        out = {}
        for m in re.finditer(r'^:class:`(\w+)`\s+(.*)$', text, re.M):
            pt = m.group(1)
            if pt not in PTYPES:
                continue
            for c in re.findall(r':class:`~lentil\.(\w+)`', m.group(2)):
                out[c] = pt
        if not out or 'Pupil' not in out:
            raise HarnessError('ptype/class table not found in %s' % path)
        return out

    def result(self, wtype, ptype):
        return self.mul[(wtype, ptype)]
