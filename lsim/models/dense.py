"""Dense "infinite zero-padded plane" helpers (reference model for C07 / C04 / C10.path).

Nothing here calls lentil's field/extent arithmetic: placement is recomputed from the
documented convention (origin at index floor(n/2), Field.offset = displacement of the field's
origin sample from the plane's origin sample).
"""
import numpy as np


def field_window(fshape, offset, shape):
    """Slices of a field (shape fshape, given offset) inside an array of `shape`, clipped.
    -> (out_slice, field_slice) or None when wholly outside."""
    out_sl, f_sl = [], []
    for n, fn, off in zip(shape, fshape, offset):
        lo = n // 2 - fn // 2 + int(off)
        hi = lo + fn
        a, b = max(lo, 0), min(hi, n)
        if a >= b:
            return None
        out_sl.append(slice(a, b))
        f_sl.append(slice(a - lo, b - lo))
    return tuple(out_sl), tuple(f_sl)


def embed(fields, shape, dtype=complex):
    """Coherent sum of (data, offset) pairs on a zero plane of `shape`."""
    out = np.zeros(shape, dtype=dtype)
    for data, offset in fields:
        data = np.asarray(data)
        if data.ndim == 0:
            out += data
            continue
        w = field_window(data.shape, offset, shape)
        if w is None:
            continue
        out[w[0]] += data[w[1]]
    return out


def wavefront_fields(w):
    return [(np.asarray(f.data), [int(x) for x in f.offset]) for f in w.data]


def coverage(w):
    """-> (total complex field, all_mask, any_mask): samples evaluated by ALL / by ANY field."""
    shape = tuple(int(x) for x in w.shape)
    total = np.zeros(shape, dtype=complex)
    all_mask = np.ones(shape, dtype=bool)
    any_mask = np.zeros(shape, dtype=bool)
    n = 0
    for data, offset in wavefront_fields(w):
        if data.ndim == 0:
            total += data
            any_mask[...] = True
            n += 1
            continue
        m = np.zeros(shape, dtype=bool)
        win = field_window(data.shape, offset, shape)
        if win is not None:
            total[win[0]] += data[win[1]]
            m[win[0]] = True
        all_mask &= m
        any_mask |= m
        n += 1
    if n == 0:
        all_mask[...] = False
    return total, all_mask, any_mask


def ramp(shape, ax, ay, dx):
    """OPD ramp equivalent to Tilt(x=ax, y=ay) on a grid with pixel scale dx=(dx_r, dx_c):
    +x tilt grows with the row coordinate, +y tilt decreases with the column coordinate
    (the basis Plane.ptt_vector documents)."""
    r = (np.arange(shape[0]) - shape[0] // 2)[:, None] * dx[0]
    c = (np.arange(shape[1]) - shape[1] // 2)[None, :] * dx[1]
    return ax * r - ay * c
