"""Reference model for C13/C15: a spectrum as plain lists plus unit, trivial inside.

The model never calls lentil.  Expected post-states are predicted from the *object's own
public pre-state* read just before the step, so no rounding accumulates across a history.
"""
import numpy as np

UNIT_M = {'m': 1.0, 'um': 1e-6, 'nm': 1e-9, 'angstrom': 1e-10}
DENSITY = ('photlam', 'flam', 'wlam')


def factor(src, dst):
    """multiply a wavelength in `src` by this to express it in `dst`"""
    table = {('m', 'um'): 1e6, ('m', 'nm'): 1e9, ('m', 'angstrom'): 1e10,
             ('um', 'm'): 1e-6, ('um', 'nm'): 1e3, ('um', 'angstrom'): 1e4,
             ('nm', 'm'): 1e-9, ('nm', 'um'): 1e-3, ('nm', 'angstrom'): 1e1,
             ('angstrom', 'm'): 1e-10, ('angstrom', 'um'): 1e-4, ('angstrom', 'nm'): 1e-1}
    return 1.0 if src == dst else table[(src, dst)]


class MS:
    """Model spectrum."""

    def __init__(self, wave, value, unit='nm', vunit=None):
        self.wave = [float(x) for x in wave]
        self.value = [float(x) for x in value]
        self.unit = unit
        self.vunit = vunit

    @classmethod
    def of(cls, s):
        return cls(np.asarray(s.wave, dtype=float).ravel().tolist(), np.asarray(s.value, dtype=float).ravel().tolist(),
                   s.waveunit, s.valueunit)

    def copy(self):
        return MS(self.wave, self.value, self.unit, self.vunit)

    # ---- representation
    def to(self, unit):
        f = factor(self.unit, unit)
        out = self.copy()
        out.wave = [w * f for w in self.wave]
        if self.vunit in DENSITY:
            out.value = [v / f for v in self.value]
        out.unit = unit
        return out

    # ---- edits
    def crop(self, lo, hi):
        keep = [i for i, w in enumerate(self.wave) if lo <= w <= hi]
        return MS([self.wave[i] for i in keep], [self.value[i] for i in keep], self.unit, self.vunit)

    def trim(self, tol):
        if not any(v != 0 for v in self.value):
            return self.copy()
        mx = max(self.value)
        idx = [i for i, v in enumerate(self.value) if v / mx > tol]
        lo, hi = idx[0], idx[-1]
        return MS(self.wave[lo:hi + 1], self.value[lo:hi + 1], self.unit, self.vunit)

    def append(self, other):
        return MS(self.wave + other.wave, self.value + other.value, self.unit, self.vunit)

    def interp(self, x, fill=0.0):
        x = np.asarray(x, dtype=float)
        fl = np.broadcast_to(np.asarray(fill, dtype=float), (2,)) if np.ndim(fill) else (fill, fill)
        return np.interp(x, self.wave, self.value, left=fl[0], right=fl[1])

    def trapz(self, lo=None, hi=None):
        lo = min(self.wave) if lo is None else lo
        hi = max(self.wave) if hi is None else hi
        pts = [(w, v) for w, v in zip(self.wave, self.value) if lo <= w <= hi]
        return sum(0.5 * (pts[i][1] + pts[i + 1][1]) * (pts[i + 1][0] - pts[i][0]) for i in range(len(pts) - 1))

    def wellformed(self):
        w = self.wave
        return len(w) == len(self.value) and all(x > 0 for x in w) and all(b > a for a, b in zip(w, w[1:]))

    def same(self, other, rtol=1e-12):
        if len(self.wave) != len(other.wave) or len(self.value) != len(other.value):
            return False
        if self.unit != other.unit or self.vunit != other.vunit:
            return False
        if rtol == 0:
            return (np.array_equal(self.wave, other.wave) and
                    np.array_equal(np.asarray(self.value), np.asarray(other.value), equal_nan=True))
        return (np.allclose(self.wave, other.wave, rtol=rtol, atol=0) and
                np.allclose(self.value, other.value, rtol=rtol, atol=1e-300, equal_nan=True))


def wellformed_obj(s):
    """Invariant of a live Spectrum, through public attributes only.  -> (ok, why)"""
    try:
        w = np.asarray(s.wave)
        v = np.asarray(s.value)
    except Exception as e:  # pragma: no cover
        return False, 'attributes unreadable: %r' % (e,)
    if w.dtype.kind not in 'fiub' or v.dtype.kind not in 'fiub':
        return False, 'wave / value are not real numbers (dtype %s / %s)' % (w.dtype, v.dtype)
    if w.ndim != 1 or v.ndim != 1:
        return False, 'wave ndim %d value ndim %d' % (w.ndim, v.ndim)
    if w.shape != v.shape:
        return False, 'len(wave)=%d but len(value)=%d' % (w.size, v.size)
    if w.size and not np.all(w > 0):
        return False, 'non-positive wavelength'
    if w.size > 1 and not np.all(np.diff(w) > 0):
        return False, 'wavelengths not strictly increasing'
    try:
        a = s.asarray()
        if a.shape != (2, w.size):
            return False, 'asarray() shape %s' % (a.shape,)
    except Exception as e:
        return False, 'asarray() raised %r' % (e,)
    return True, ''
