"""lsim -- a deterministic simulator for the lentil library (see /verif/DESIGN.md)."""
