"""ddmin-style minimisation of a failing run while the same (oracle, signature) persists."""
import copy
import os
import signal

from .core import vkey, HarnessError


def _fails(scn, L, run, key, counter):
    """Does `run` show the violation `key`?  Every candidate is executed in a fresh fork of this (clean) process, so
    state left behind by earlier candidates (caches, memo tables a defect may have introduced) cannot fake a reproduction."""
    counter[0] += 1
    pid = os.fork()
    if pid == 0:
        code = 0
        try:
            signal.alarm(180)
            from .runner import prepare
            prepare(scn, L)             # this fork is pristine: it may own a pristine-process evaluator
            res = scn.execute(L, run)
            if any(vkey(v['oracle'], v['sig']) == key for v in res['violations']):
                code = 3
        except BaseException:
            code = 0
        os._exit(code)
    _, status = os.waitpid(pid, 0)
    return os.WIFEXITED(status) and os.WEXITSTATUS(status) == 3


def minimise(scn, L, run, key, budget=300):
    counter = [0]
    run = copy.deepcopy(run)
    if not _fails(scn, L, run, key, counter):
        raise HarnessError('violation %s does not reproduce in-process before minimisation' % key)
    events = run['events']

    def with_events(evs):
        r = dict(run)
        r['events'] = evs
        return r

    # 1. drop whole callers
    callers = sorted({e.get('c') for e in events if 'c' in e and e.get('c', -1) >= 0})
    if len(callers) > 1:
        for c in callers:
            cand = [e for e in events if e.get('c') != c]
            if counter[0] < budget and _fails(scn, L, with_events(cand), key, counter):
                events = cand
    # 2. drop environment events wholesale, then ddmin
    cand = [e for e in events if 'env' not in e]
    if len(cand) < len(events) and counter[0] < budget and _fails(scn, L, with_events(cand), key, counter):
        events = cand
    n = 2
    while len(events) >= 2 and counter[0] < budget:
        size = max(1, len(events) // n)
        removed = False
        start = 0
        while start < len(events) and counter[0] < budget:
            cand = events[:start] + events[start + size:]
            if cand and _fails(scn, L, with_events(cand), key, counter):
                events = cand
                removed = True
                n = max(n - 1, 2)
            else:
                start += size
        if not removed:
            if size == 1:
                break
            n = min(len(events), n * 2)
    run['events'] = events
    # 3. scenario-specific simplifications (shapes, recipes, knobs)
    progress = True
    while progress and counter[0] < budget:
        progress = False
        for cand in scn.simplify(run):
            if counter[0] >= budget:
                break
            if _fails(scn, L, cand, key, counter):
                run = cand
                progress = True
                break
    run['minimise_executions'] = counter[0]
    return run
