"""Public-state descriptions of lentil objects: describe / build / same.

``describe(L, obj)`` turns an argument or a result into plain data (nested tuples, numpy arrays,
numbers, strings) that contains exactly what a caller can read through the documented API.
``build(L, desc)`` constructs a *new* object in that state through the public constructors, so
nothing private (a memo attribute added by some change, a cached slice) travels with it.
``same(a, b)`` compares two descriptions with a relative tolerance.

Used by the `C10.fresh` oracle (lsim/fresh.py): "a result depends only on the current arguments"
is checked by evaluating the same call on public-state clones of its arguments in a process that
has never executed anything else.
"""
import numpy as np


class Unsupported(Exception):
    pass


def _arr(a):
    a = np.asarray(a)
    if a.dtype == object:
        raise Unsupported('object array')
    return np.array(a, copy=True, order='K')


def describe(L, o, depth=0):
    if depth > 10:
        raise Unsupported('too deep')
    PType = type(L.none)
    R = L.radiometry
    if o is None or isinstance(o, (bool, int, float, complex, str)):
        return o
    if isinstance(o, (np.bool_, np.integer, np.floating, np.complexfloating)):
        return ('np0', _arr(o))
    if isinstance(o, np.ndarray):
        return ('nd', _arr(o))
    if isinstance(o, tuple):
        return ('tuple',) + tuple(describe(L, x, depth + 1) for x in o)
    if isinstance(o, list):
        return ('list',) + tuple(describe(L, x, depth + 1) for x in o)
    if isinstance(o, dict):
        return ('dict',) + tuple((str(k), describe(L, o[k], depth + 1)) for k in sorted(o, key=str))
    if isinstance(o, slice):
        return ('slice', o.start, o.stop, o.step)
    if isinstance(o, PType):
        return ('ptype', str(o))
    if isinstance(o, L.field.Field):
        return ('Field', _arr(o.data), None if o.pixelscale is None else _arr(np.asarray(o.pixelscale, dtype=float)),
                tuple(int(x) for x in o.offset), tuple(describe(L, t, depth + 1) for t in o.tilt))
    if isinstance(o, L.Wavefront):
        return ('Wavefront', float(o.wavelength), None if o.pixelscale is None else _arr(np.asarray(o.pixelscale, dtype=float)),
                float(o.focal_length), str(o.ptype), tuple(int(x) for x in o.shape),
                None if o.diameter is None else float(o.diameter),
                tuple(describe(L, f, depth + 1) for f in o.data))
    if isinstance(o, L.Plane):
        cls = type(o).__name__
        d = getattr(o, '__dict__', {})
        extra = []
        for name in ('focal_length', 'x', 'y', 'trace', 'dispersion', 'angle', 'order', 'axis'):
            # public attributes of the subclasses, however they are stored (instance dict or property)
            if name in d or isinstance(getattr(type(o), name, None), property):
                extra.append((name, describe(L, getattr(o, name), depth + 1)))
        return ('Plane', cls, _arr(o.amplitude), _arr(o.opd), _arr(o.mask),
                None if o.pixelscale is None else _arr(np.asarray(o.pixelscale, dtype=float)),
                str(o.ptype), None if d.get('_diameter') is None else float(d['_diameter']),
                tuple(extra), tuple(describe(L, t, depth + 1) for t in o.tilt))
    if isinstance(o, R.Blackbody):
        return ('Blackbody', _arr(o.wave), _arr(o.value), str(o.waveunit), None if o.valueunit is None else str(o.valueunit),
                float(o.temp))
    if isinstance(o, R.Spectrum):
        return ('Spectrum', _arr(o.wave), _arr(o.value), str(o.waveunit), None if o.valueunit is None else str(o.valueunit))
    if isinstance(o, R.Material):
        # public state: transmission and emission as a caller reads them (contamination factor applied), and the factor
        if not isinstance(o.contam, (int, float)) or not o.contam:
            raise Unsupported('Material with contam %r' % (o.contam,))
        return ('Material', describe(L, o.transmission, depth + 1), describe(L, o.emission, depth + 1), float(o.contam))
    if isinstance(o, BaseException):
        return ('exc', type(o).__name__)
    raise Unsupported(type(o).__name__)


_PLANE_CLASSES = ('Plane', 'Pupil', 'Image', 'Tilt', 'DispersiveTilt', 'Grism', 'LensletArray')


def build(L, d):
    if not isinstance(d, tuple):
        return d
    kind = d[0]
    if kind == 'np0':
        return d[1][()]
    if kind == 'nd':
        return np.array(d[1], copy=True, order='K')
    if kind == 'tuple':
        return tuple(build(L, x) for x in d[1:])
    if kind == 'list':
        return [build(L, x) for x in d[1:]]
    if kind == 'dict':
        return {k: build(L, v) for (k, v) in d[1:]}
    if kind == 'slice':
        return slice(d[1], d[2], d[3])
    if kind == 'ptype':
        return L.ptype(d[1])
    if kind == 'Field':
        _, data, px, offset, tilt = d
        return L.field.Field(data=np.array(data, copy=True), pixelscale=None if px is None else tuple(float(x) for x in px),
                             offset=list(offset), tilt=[build(L, t) for t in tilt])
    if kind == 'Wavefront':
        _, wl, px, fl, ptype, shape, diam, data = d
        w = L.Wavefront.empty(wavelength=wl, pixelscale=None if px is None else tuple(float(x) for x in px), diameter=diam,
                              focal_length=fl, shape=tuple(shape), ptype=L.ptype(ptype))
        w.data = [build(L, f) for f in data]
        return w
    if kind == 'Plane':
        _, cls, amp, opd, mask, px, ptype, diam, extra, tilt = d
        if cls not in _PLANE_CLASSES:
            raise Unsupported(cls)
        ex = {k: build(L, v) for k, v in extra}
        px_ = None if px is None else tuple(float(x) for x in px)
        C = getattr(L, cls)
        common = dict(amplitude=np.array(amp, copy=True), opd=np.array(opd, copy=True), mask=np.array(mask, copy=True),
                      pixelscale=px_, diameter=diam)
        if cls == 'Pupil':
            p = C(focal_length=ex.get('focal_length'), **common)
        elif cls == 'Tilt':
            # Tilt(x, y) stores the y argument in attribute `x` and the x argument in attribute `y`
            p = C(x=ex['y'], y=ex['x'], ptype=L.ptype(ptype), **common)
        elif cls in ('DispersiveTilt', 'Grism'):
            import warnings
            with warnings.catch_warnings():
                warnings.simplefilter('ignore')
                p = C(trace=ex['trace'], dispersion=ex['dispersion'], ptype=L.ptype(ptype), **common)
        elif cls == 'Image':
            p = C(**common)
        else:
            p = C(ptype=L.ptype(ptype), **common)
        p.tilt = [build(L, t) for t in tilt]
        return p
    if kind == 'Blackbody':
        _, wave, value, wu, vu, temp = d
        return L.radiometry.Blackbody(np.array(wave, copy=True), temp, waveunit=wu, valueunit=vu)
    if kind == 'Spectrum':
        _, wave, value, wu, vu = d
        return L.radiometry.Spectrum(np.array(wave, copy=True), np.array(value, copy=True), waveunit=wu, valueunit=vu)
    if kind == 'Material':
        _, tr, em, contam = d
        # the constructor takes the values before the contamination factor is applied
        return L.radiometry.Material(transmission=build(L, tr) / contam, emission=build(L, em) / contam, contam=contam)
    raise Unsupported(str(kind))


def same(a, b, rtol=1e-9, path=''):
    """-> None when equal, else a short text saying where the two descriptions differ."""
    if isinstance(a, np.ndarray) or isinstance(b, np.ndarray):
        if not (isinstance(a, np.ndarray) and isinstance(b, np.ndarray)):
            return '%s: array vs %s' % (path, type(b if isinstance(a, np.ndarray) else a).__name__)
        if a.shape != b.shape:
            return '%s: shape %s vs %s' % (path, a.shape, b.shape)
        if a.dtype.kind != b.dtype.kind:
            return '%s: dtype %s vs %s' % (path, a.dtype, b.dtype)
        if a.size == 0:
            return None
        if a.dtype.kind in 'fc':
            na, nb = np.isnan(a), np.isnan(b)
            if not np.array_equal(na, nb):
                return '%s: NaN pattern differs' % path
            fa = np.where(na, 0, a)
            fb = np.where(nb, 0, b)
            ia, ib = np.isinf(fa), np.isinf(fb)
            if not np.array_equal(ia, ib) or not np.array_equal(fa[ia], fb[ib]):
                return '%s: inf pattern differs' % path
            fa = np.where(ia, 0, fa)
            fb = np.where(ib, 0, fb)
            ref = float(np.max(np.abs(fb)))
            err = float(np.max(np.abs(fa - fb)))
            if err > rtol * ref + 1e-300:
                return '%s: max |diff| %.3g (ref max %.3g)' % (path, err, ref)
            return None
        if not np.array_equal(a, b):
            return '%s: values differ' % path
        return None
    if isinstance(a, tuple) and isinstance(b, tuple):
        if len(a) != len(b):
            return '%s: length %d vs %d' % (path, len(a), len(b))
        for n, (x, y) in enumerate(zip(a, b)):
            r = same(x, y, rtol, '%s/%s' % (path, a[0] if n and isinstance(a[0], str) else n) if n else path)
            if r:
                return r
        return None
    if isinstance(a, float) and isinstance(b, float):
        if a != a and b != b:
            return None
        if a == b:
            return None
        if abs(a - b) <= rtol * max(abs(a), abs(b)):
            return None
        return '%s: %r vs %r' % (path, a, b)
    if isinstance(a, bool) != isinstance(b, bool):
        return '%s: %r vs %r' % (path, a, b)
    if isinstance(a, (int, float)) and isinstance(b, (int, float)) and not isinstance(a, bool):
        return same(float(a), float(b), rtol, path)
    if type(a) is not type(b) or a != b:
        return '%s: %r vs %r' % (path, a, b)
    return None
