"""Type-aware call generator over lentil's whole public surface (used by the C10 session).

C10 quantifies over "all sequences of public API calls"; hand-written pipeline fragments reach the calls a user would
write first, this catalogue reaches the rest: every public function and non-mutating method, with optional arguments
nobody passes, arguments in every container a caller may use (literal, list, tuple, the caller's own ndarray), arrays of
several dtypes and memory layouts, identity and edge values.  A generated call may well be refused by lentil -- that is
fine: the C10 oracles judge *purity* (operands byte-identical afterwards, same outcome when repeated, solo, interleaved
or in a pristine process), never the value.

A catalogue entry is  (kind, target, positional parameter pools, optional keyword pools).
kind 'f': module-level function, target is its dotted path below `lentil`; kind 'm': method `name` of an object drawn from
a pool; kind 'a': attribute (property) of an object drawn from a pool.
"""

# pools: name -> list of alternatives; strings starting with '@' are store references of the purity session's shared pool
POOLS = {
    'img': ['@IMG', '@ISQ', '@A', '@IMGI', '@IMGF', '@IMGT', '@IMGZ', '@CX'],
    'sq': ['@ISQ', '@ISQ', '@G2'],
    'real2d': ['@A', '@O', '@B', '@IMG', '@ISQ', '@IMGF', '@IMGT', '@IMGZ', '@OZS'],
    'any2d': ['@A', '@O', '@CX', '@IMG', '@M', '@MB', '@IMGI', '@IMGT', '@IMGZ', '@OZS'],
    'cplx': ['@CX', '@CX', '@A'],
    'cube': ['@CUBE', '@G3', '@MS'],
    'mask': ['@M', '@MB', '@MB', '@MI', '@MZ'],
    'maskcube': ['@MS'],
    'anymask': ['@M', '@MB', '@MS', '@MI'],
    'opd': ['@O', '@B', '@OF', '@OZS'],
    'rho': ['@RHO'],
    'theta': ['@THETA'],
    'shape': [[4, 5], [6, 6], [5, 4], {'$tuple': [7, 3]}, '@SHP', 5],
    'shape2': [[9, 9], [8, 9], {'$tuple': [9, 8]}, [12, 10]],
    'shapeS0': ['S0'],                   # replaced by the session's S0
    'shift': [[0, 0], [1, 0], [-1, 2], {'$tuple': [0, 1]}, '@OFFV', [0.5, -0.25]],
    'ishift': [[0, 0], [1, 0], [-1, 1], {'$tuple': [0, 1]}, '@OFFV'],
    'fshift': [[0.0, 0.0], [0.5, -1.25], '@SHIFTV', {'$tuple': [1.5, 0.0]}],
    'alpha': [0.1, [0.1, 0.08], '@ALPHA', {'$tuple': [0.09, 0.11]}],
    'scale': [0.5, 1, 1.0, 2, 1.5],
    'radius': [2.5, 3.0, 4.2],
    'width': [1.5, 3, 4.0],
    'angle': [0, 0.0, 30, 45.0, 90],
    'bool': [True, False],
    'os': [1, 2, 3],
    'os12': [1, 2],
    'factor': [1, 2],
    'small': [0.0, 0.5, 1.0, 2.0],
    'sigma': [0.5, 0.8, 1.5],
    'power': [1, 2.5, 0.5],
    'index': [1, 2, 4, 7, 11],
    'modes': [[1, 2, 3], [2, 3, 4, 5], {'$tuple': [1, 4]}, '@MODES'],
    'coeffs': [[0.1, -0.2, 0.3], [1e-7, 0.0, 2e-7, -1e-7], '@COEF'],
    'px': ['DU', ['DU', 'DU'], '@PXA', {'$tuple': ['DU', 'DU']}],
    'pxplane': ['DX'],
    'waves': [[450.0, 550.0, 650.0], {'$tuple': [450.0, 550.0, 650.0]}, '@WV3'],
    'wave_q': [[500.0, 510.0, 615.0], '@WVQ', '@WVQ', '@WVC', 550.0],
    'centres': [[450.0, 500.0, 550.0, 600.0], [475.0, 525.0, 575.0], '@WVC'],
    'qe': [0.8, '@QEV', '@SP1', '@SP2', [0.5, 0.6, 0.7], '@QEN'],
    'gain': [0.02, '@GV', '@G2', '@G3', [1e-5, 0.02]],
    'satcap': [None, 2500, 4000.0],
    'dtype': [None, 'uint16', 'float32'],
    'seed': [0, 1, 12345, [3, 4], 2 ** 33 + 1],
    'method_sn': ['poisson', 'gaussian'],
    'rate': [5.5, 100.0, 0.0, 7 - 1e-9],
    'fpn': [0, 0.2, 0.4],
    'temp': [4500.0, 5800.0, 300.0],
    'temp_k': [100.0, 140.0],
    'cutoff': [2.5e-6, 5e-6],
    'pxdet': [10e-6, 18e-6],
    'unit': ['nm', 'um', 'angstrom', 'm'],
    'vunit': ['photlam', 'flam', 'wlam'],
    'band': ['V', 'R', 'J', 'K'],
    'spec': ['@SP1', '@SP2', '@SPF', '@BB', '@SPI'],
    'spec_or_num': ['@SP1', '@SP2', '@SPF', 2.0, 0.5, 1, 0],
    'sampling': ['min', 'left', 'right', 7.0],
    'imethod': ['linear', 'quadratic', 'cubic'],
    'qmethod': ['simps', 'trapz'],
    'ends': ['symmetric', 'inside'],
    'fill': [0, 0.0, 1.0],
    'tol': [1e-4, 0.2, 0.0],
    'plane': ['@P0', '@P1', '@P2', '@PSC', '@PDEF', '@IM', '@IMA', '@TL'],
    'arrplane': ['@P0', '@P1', '@P2'],
    'tilt': ['@TL'],
    'disp': ['@DT1', '@DTH'],
    'wf': ['@W0'],
    'material': ['@MAT'],
    'items_t': [['@SP1', '@MAT', 0.9], ['@MAT'], [0.5, '@SP2'], {'$tuple': ['@SP1', '@SP2']}],
    'items_e': [['@MAT'], ['@MAT', '@MAT']],
    'wl': ['WL', 'WL2'],
    'fnum': [10.0, 20.0],
    'transl': [1e-6, 0.0, -2e-6],
    'rms': [5e-8, 1e-7],
    'hpf': [4.0, 8.0],
    'exp': [2.0, 3.0],
    'rings': [1, 2],
    'segr': [3, 4],
    'gap': [0, 1],
    'drop': [{'$tuple': [0]}, [0, 1], []],
    'thr': [0, 0.5],
    'pad2': [[0, 0], [1, 1], {'$tuple': [1, 0]}],
    'gsize': [5, 6, [5, 7]],
    'bayer': ['RGGB', 'BGGR', 'GRBG'],
    'winshape': [None, [3, 3], [2, 4], {'$tuple': [3, 2]}],
    'xs': [0.0, 1e-6],
    'z': [0.0, 1.0, 2.0],
    'order': [0, 1, 3],
    'mode': ['nearest', 'constant', 'reflect'],
    'indexing': ['ij', 'xy'],
    'minq': [2, 3.5],
    'bandpass': [550e-9, [500e-9, 600e-9], '@WVM'],
    'anyshape': [7, [7, 8], {'$tuple': [6, 5]}, '@SHP', [4]],
}

F, M, A = 'f', 'm', 'a'
CATALOGUE = [
    (F, 'boundary', ['anymask'], {'threshold': 'thr'}),
    (F, 'centroid', ['img'], {}),
    (F, 'circle', ['shape2', 'radius'], {'shift': 'shift', 'antialias': 'bool'}),
    (F, 'hexagon', ['shape2', 'radius'], {'shift': 'ishift', 'rotate': 'bool', 'antialias': 'bool'}),
    (F, 'rectangle', ['shape2', 'width', 'width'], {'shift': 'ishift', 'angle': 'angle', 'antialias': 'bool'}),
    (F, 'spider', ['shape2', 'width'], {'angle': 'angle', 'shift': 'ishift', 'antialias': 'bool'}),
    (F, 'hex_segments', [], {'rings': 'rings', 'seg_radius': 'segr', 'seg_gap': 'gap', 'rotate': 'bool', 'antialias': 'bool', 'flatten': 'bool',
                             'pad': 'factor', 'drop': 'drop'}),
    (F, 'jitter', ['img', 'small'], {'pixelscale': 'factor', 'oversample': 'os12'}),
    (F, 'smear', ['img', 'small'], {'angle': 'angle', 'pixelscale': 'factor', 'oversample': 'os12'}),
    (F, 'min_sampling', ['bandpass', 'z', 'px', 'anyshape', 'minq'], {}),
    (F, 'normalize_power', ['real2d'], {'power': 'power'}),
    (F, 'pad', ['any2d', 'shape2'], {}),
    (F, 'pad', ['cube', 'shape2'], {}),
    (F, 'pixelscale_nyquist', ['bandpass', 'fnum'], {}),
    (F, 'power_spectrum', ['mask'], {'pixelscale': 'pxplane', 'rms': 'rms', 'half_power_freq': 'hpf', 'exp': 'exp', 'seed': 'seed'}),
    (F, 'rebin', ['sq', 'factor'], {}),
    (F, 'rebin', ['cube', 'factor'], {}),
    (F, 'rescale', ['any2d', 'scale'], {'shape': 'winshape', 'mask': 'mask', 'order': 'order', 'mode': 'mode', 'unitary': 'bool'}),
    (F, 'sanitize_bandpass', ['bandpass'], {}),
    (F, 'sanitize_shape', ['anyshape'], {}),
    (F, 'subarray', ['any2d', 'shape'], {'shift': 'ishift'}),
    (F, 'translation_defocus', ['mask'], {'f_number': 'fnum', 'translation': 'transl'}),
    (F, 'window', ['img'], {'shape': 'winshape'}),
    (F, 'zernike', ['mask', 'index'], {'normalize': 'bool'}),
    (F, 'zernike', ['mask', 'index'], {'normalize': 'bool', 'rho': 'rho', 'theta': 'theta'}),
    (F, 'zernike_basis', ['mask', 'modes'], {'vectorize': 'bool', 'normalize': 'bool'}),
    (F, 'zernike_basis', ['mask', 'modes'], {'rho': 'rho', 'theta': 'theta'}),
    (F, 'zernike_compose', ['mask', 'coeffs'], {'normalize': 'bool'}),
    (F, 'zernike_compose', ['mask', 'coeffs'], {'rho': 'rho', 'theta': 'theta'}),
    (F, 'zernike_fit', ['opd', 'mask', 'modes'], {'rho': 'rho', 'theta': 'theta'}),
    (F, 'zernike_remove', ['opd', 'mask', 'modes'], {'rho': 'rho', 'theta': 'theta'}),
    (F, 'zernike_coordinates', ['mask'], {'shift': 'ishift', 'rotate': 'angle'}),
    (F, 'zernike_fit', ['opd', 'mask', 'modes'], {'normalize': 'bool'}),
    (F, 'zernike_remove', ['opd', 'mask', 'modes'], {}),
    (F, 'detector.adc', ['sq', 'gain'], {'saturation_capacity': 'satcap', 'warn_saturate': 'bool', 'dtype': 'dtype'}),
    (F, 'detector.charge_diffusion', ['img', 'sigma'], {'oversample': 'os12'}),
    (F, 'detector.collect_charge', ['cube', 'waves', 'qe'], {'waveunit': 'unit'}),
    (F, 'detector.collect_charge_bayer', ['cube', 'waves', 'qe', 'qe', 'qe', 'bayer'], {'oversample': 'os12', 'waveunit': 'unit', 'flatten': 'bool'}),
    (F, 'detector.dark_current', ['rate'], {'shape': 'shape', 'fpn_factor': 'fpn', 'seed': 'seed'}),
    (F, 'detector.format_bayer_string', ['bayer'], {}),
    (F, 'detector.pixel', ['img'], {'oversample': 'os12'}),
    (F, 'detector.pixelate', ['img', 'os12'], {}),
    (F, 'detector.qe_asarray', ['qe', 'waves', 'unit'], {}),
    (F, 'detector.read_noise', ['img', 'small'], {'seed': 'seed'}),
    (F, 'detector.rule07_dark_current', ['temp_k', 'cutoff', 'pxdet'], {'shape': 'shape', 'fpn_factor': 'fpn', 'seed': 'seed'}),
    (F, 'detector.shot_noise', ['img'], {'method': 'method_sn', 'seed': 'seed'}),
    (F, 'radiometry.path_emission', ['items_e'], {'emission': 'spec_or_num'}),
    (F, 'radiometry.path_transmission', ['items_t'], {}),
    (F, 'radiometry.planck_exitance', ['wave_q', 'temp'], {'waveunit': 'unit', 'valueunit': 'vunit'}),
    (F, 'radiometry.planck_radiance', ['wave_q', 'temp'], {'waveunit': 'unit', 'valueunit': 'vunit'}),
    (F, 'radiometry.vegaflux', ['band'], {'waveunit': 'unit', 'valueunit': 'vunit'}),
    (F, 'fourier.dft2', ['cplx', 'alpha'], {'shape': 'shape', 'shift': 'fshift', 'offset': 'ishift', 'unitary': 'bool'}),
    (F, 'fourier.idft2', ['cplx', 'alpha'], {'shape': 'shape', 'shift': 'fshift', 'unitary': 'bool'}),
    (F, 'helper.boundary_slice', ['anymask'], {'threshold': 'thr', 'pad': 'pad2'}),
    (F, 'helper.gaussian2d', ['gsize', 'sigma'], {}),
    (F, 'helper.mesh', ['shape2'], {'shift': 'ishift', 'angle': 'angle'}),
    (F, 'scratch_shape', [], {'wavelength': 'bandpass', 'dx': 'pxplane', 'du': 'px', 'z': 'z', 'oversample': 'os'}),
    (F, 'propagate_dft', ['wfp'], {'pixelscale': 'px', 'shape': 'shape', 'prop_shape': 'shape', 'oversample': 'os', 'mask': 'none'}),
    (F, 'propagate_fft', ['wfp'], {'pixelscale': 'px', 'shape': 'shape', 'oversample': 'os12'}),
    (M, ('plane', 'copy'), [], {}),
    (M, ('plane', 'fit_tilt'), [], {}),
    (M, ('arrplane', 'rescale'), ['scale'], {}),
    (M, ('arrplane', 'resample'), ['pxplane'], {}),
    (M, ('plane', 'multiply'), ['wf'], {}),
    (M, ('tilt', 'shift'), [], {'xs': 'xs', 'ys': 'xs', 'z': 'z'}),
    (M, ('disp', 'shift'), [], {'wavelength': 'wl', 'xs': 'xs', 'ys': 'xs'}),
    (M, ('spec', 'add'), ['spec_or_num'], {'sampling': 'sampling', 'method': 'imethod', 'fill_value': 'fill'}),
    (M, ('spec', 'subtract'), ['spec_or_num'], {'sampling': 'sampling', 'method': 'imethod', 'fill_value': 'fill'}),
    (M, ('spec', 'multiply'), ['spec_or_num'], {'sampling': 'sampling', 'method': 'imethod', 'fill_value': 'fill'}),
    (M, ('spec', 'divide'), ['spec_or_num'], {'sampling': 'sampling', 'method': 'imethod', 'fill_value': 'fill'}),
    (M, ('spec', 'power'), ['spec_or_num'], {'sampling': 'sampling', 'method': 'imethod', 'fill_value': 'fill'}),
    (M, ('spec', 'asarray'), [], {}),
    (M, ('spec', 'copy'), [], {}),
    (M, ('spec', 'ends'), [], {'tol': 'tol'}),
    (M, ('spec', 'bin'), ['centres'], {'interp_method': 'qmethod', 'ends': 'ends', 'preserve_power': 'bool', 'sample_method': 'imethod',
                                      'fill_value': 'fill', 'waveunit': 'unit'}),
    (M, ('spec', 'integrate'), [], {'start': 'wave_s', 'end': 'wave_e', 'method': 'qmethod'}),
    (M, ('spec', 'sample'), ['wave_q'], {'method': 'imethod', 'fill_value': 'fill', 'waveunit': 'unit'}),
    (A, ('plane', ['amplitude', 'opd', 'mask', 'global_mask', 'diameter', 'shape', 'size', 'ptt_vector', 'pixelscale', 'ptype', 'tilt']), [], {}),
    (A, ('spec', ['wave', 'value', 'waveunit', 'valueunit']), [], {}),
    (A, ('material', ['transmission', 'emission', 'contam']), [], {}),
    (A, ('wf', ['field', 'intensity', 'wavelength', 'pixelscale', 'ptype', 'shape', 'focal_length', 'data']), [], {}),
]

POOLS['wave_s'] = [None, 450.0, 425.0]
POOLS['wave_e'] = [None, 600.0, 575.0]
POOLS['none'] = [None]


def _pick(rng, pool, ctx):
    v = rng.choice(POOLS[pool]) if pool != 'wfp' else ctx['wfp']
    return _subst(v, ctx)


def _subst(v, ctx):
    if isinstance(v, str) and v in ctx:
        return ctx[v]
    if isinstance(v, list):
        return [_subst(x, ctx) for x in v]
    if isinstance(v, dict) and '$tuple' in v:
        return {'$tuple': [_subst(x, ctx) for x in v['$tuple']]}
    return v


def autocall(rng, ctx):
    """-> (fn, args, kwargs) of one generated call.  ctx supplies the session's physical constants (DU, DX, WL, WL2, S0) and, under
    'wfp', the id of a propagatable wavefront of the caller (or None)."""
    while True:
        kind, target, pos, kws = rng.choice(CATALOGUE)
        if 'wfp' in pos and not ctx.get('wfp'):
            continue
        break
    args = [_pick(rng, p, ctx) for p in pos]
    kw = {}
    for k, p in kws.items():
        required = kind == F and target in ('power_spectrum', 'scratch_shape', 'hex_segments', 'translation_defocus') or \
            (target in ('propagate_dft', 'propagate_fft') and k == 'pixelscale')
        # seeds are always passed (seed=None is OS entropy: outside the simulator) and smear always gets its angle (angle=None
        # draws from the global generator by design -- an unseeded consumer, exercised under C18)
        always = k == 'seed' or (target == 'smear' and k == 'angle') or k in ('rho', 'theta')
        if always or (required and k not in ('rotate', 'antialias', 'flatten', 'pad', 'drop')) or rng.random() < 0.35:
            kw[k] = _pick(rng, p, ctx)
    if kind == F:
        return 'call', [target] + args, kw
    if kind == M:
        obj = _pick(rng, target[0], ctx)
        return 'callm', [obj, target[1]] + args, kw
    obj = _pick(rng, target[0], ctx)
    return 'attr', [obj, rng.choice(target[1])], {}
