"""Scenario base class: result packaging, generic simplifications, solo-vs-interleaved passes."""
import copy
import hashlib

from ..core import Interp, Hooks
from ..ops import FNS


class Scenario:
    name = 'base'
    prop = 'C00'
    quick_runs = 1000
    thorough_runs = 100000
    audit_every = 0            # every n-th chunk gets a cold/warm audit (0 = never)
    must_hit = []
    probe_names = []
    rule = ''
    state_measure = ''
    assumptions = []
    fns = FNS

    @property
    def depth(self):
        """Length multiplier of generated histories: 1 in the quick tier, 2 in the thorough tier (deeper bounds there).
        Set by the runner for the whole batch (children inherit it); recorded in cold/warm replay files."""
        import os
        try:
            return max(1, int(os.environ.get('LSIM_DEPTH', '1')))
        except ValueError:
            return 1

    # ---- to override
    def prelude(self, verif_seed):
        return []

    def generate(self, rng):
        raise NotImplementedError

    def hooks(self, L, run):
        return Hooks()

    def execute(self, L, run):
        it = Interp(L, run['world'], self.fns, self.hooks(L, run))
        it.run(run['events'])
        return self.result(it)

    # ---- helpers
    def result(self, it, extra_viol=(), states=(), nontrivial=None):
        viol = [v.to_json() for v in it.violations] + list(extra_viol)
        checks = {k[6:]: v for k, v in it.probes.items() if k.startswith('check:')}
        probes = {k: v for k, v in it.probes.items() if not k.startswith('check:')}
        if nontrivial is None:
            nontrivial = bool(sum(it.faults.values())) and bool(sum(checks.values()))
        sched = hashlib.sha1(repr([(r[1], r[2]) for r in it.history]).encode()).hexdigest()[:12]
        return {'violations': viol, 'probes': probes, 'faults': dict(it.faults), 'steps': it.steps,
                'hist': it.history_digest(), 'nontrivial': nontrivial, 'states': sorted(set(states)),
                'schedule': sched, 'checks': checks}

    def simplify(self, run):
        """Yield simpler variants of a run (one change each)."""
        world = run['world']
        # shrink shape variables towards 1..3
        for name, shp in sorted(world.get('shapes', {}).items()):
            for ax in range(len(shp)):
                for target in (2, 3, shp[ax] - 1):
                    if 1 <= target < shp[ax]:
                        r = copy.deepcopy(run)
                        r['world']['shapes'][name][ax] = target
                        yield r
        if world.get('cache', 32) != 32:
            r = copy.deepcopy(run)
            r['world']['cache'] = 32
            yield r
        # simpler array contents
        for i, ev in enumerate(run['events']):
            rec = ev.get('recipe')
            if rec and rec.get('kind') in ('uniform', 'normal'):
                for simple in ({'kind': 'const', 'value': 1.0}, {'kind': 'ramp', 'a': 1.0, 'b': 0.5, 'c0': 1.0}):
                    r = copy.deepcopy(run)
                    new = dict(simple)
                    for keep in ('shape', 'dtype', 'layout'):
                        if keep in rec:
                            new[keep] = rec[keep]
                    r['events'][i]['recipe'] = new
                    yield r
            if rec and rec.get('layout', 'C') != 'C':
                r = copy.deepcopy(run)
                r['events'][i]['recipe']['layout'] = 'C'
                yield r


def solo_events(events, caller, keep_env=()):
    """Projection used by the solo pass: the shared setup (c < 0) plus one caller, no faults
    (except environment kinds listed in keep_env, e.g. the read-only medium of a frozen run)."""
    return [e for e in events if (e.get('env') in keep_env) or
            ('env' in e and e.get('c') == caller) or           # the caller's own writes into arrays it owns
            ('env' not in e and (e.get('c', 0) < 0 or e.get('c') == caller))]


def callers_of(events):
    return sorted({e['c'] for e in events if 'env' not in e and e.get('c', 0) >= 0})


def is_call(ev):
    return 'fn' in ev
