"""C13 -- spectrum arithmetic is pointwise, commutative and unit-agnostic (DESIGN.md 7.4).

K callers share a pool of spectra.  Histories mix the five binary operators (method and dunder
forms, every sampling / interpolation / fill option, scalar and vector operands) with
*representation changes* -- to(unit) on a shared spectrum by its owner -- so the same physical
spectrum is met in m, um, nm and angstrom at different points of a history.
"""
import copy
import math

import numpy as np
import scipy.interpolate

from ..core import Interp, Hooks, Violation
from ..models.canon_spectrum import MS, factor, DENSITY, wellformed_obj
from .base import Scenario, solo_events, callers_of

OPS = {'add': np.add, 'subtract': np.subtract, 'multiply': np.multiply, 'divide': np.divide, 'power': np.power}
DUNDER = {'s+': 'add', 's-': 'subtract', 's*': 'multiply', 's/': 'divide', 's**': 'power'}
METHOD = {'Spectrum.' + k: k for k in OPS}
METHOD['material.product'] = 'multiply'      # Material.transmission / .emission: contam * spectrum, computed at every access
AUGMENTED = {'s+=': 'add', 's-=': 'subtract', 's*=': 'multiply', 's/=': 'divide', 's**=': 'power'}     # x op= y through operator.iadd & co


def op_of(fn):
    return DUNDER.get(fn) or METHOD.get(fn) or AUGMENTED.get(fn)


def canon(m):
    """physical content: wavelengths in metres, values per metre when a density"""
    c = m.to('m')
    return np.asarray(c.wave), np.asarray(c.value)


def label_meaningful(opname, va, vb, fill=0):
    """Is the left operand's value unit a correct label for the result?  Only then can two results
    obtained in different wavelength units be compared as physical spectra."""
    da, db = va in DENSITY, vb in DENSITY
    if not da and not db:
        return True
    if fill != 0:
        return False    # a non-zero fill value is a number in the left operand's current units: not unit-free by construction
    if da and not db:
        return opname in ('multiply', 'divide')
    if da and db:
        return opname in ('add', 'subtract') and va == vb
    return False        # unitless (x) density: judged by the density-label oracle


def ends_m(*models):
    """operand range ends in metres (where interval membership of a grid point can hinge on rounding)"""
    out = []
    for m in models:
        c = m.to('m')
        out += [c.wave[0], c.wave[-1]]
    return out


def same_physical(m1, m2, rtol=1e-9, ends=()):
    w1, v1 = canon(m1)
    w2, v2 = canon(m2)
    if w1.shape != w2.shape or v1.shape != v2.shape:
        return False, 'grids of %d and %d points' % (w1.size, w2.size)
    if not np.allclose(w1, w2, rtol=1e-12, atol=0):
        return False, 'wavelength grids differ'
    keep = np.ones(w1.shape, dtype=bool)
    for e in ends:
        keep &= ~(np.abs(w1 - e) < 1e-9 * abs(e))
    v1, v2 = v1[keep], v2[keep]
    fin = np.isfinite(v1) & np.isfinite(v2)
    if not np.array_equal(np.isfinite(v1), np.isfinite(v2)):
        return False, 'finite/non-finite pattern differs'
    if fin.any():
        scale = max(np.max(np.abs(v2[fin])), 1e-300)
        err = np.max(np.abs(v1[fin] - v2[fin]))
        if err > rtol * scale:
            return False, 'values differ by %.3g (scale %.3g)' % (err, scale)
    return True, ''


def model_binop(a, b, opname, sampling='min', method='linear', fill=0, live=(None, None)):
    """The statement, executed on the list model.  -> dict(grid, value, mask, ambiguous).
    `live`: for an operand that is not a table of samples but a law (Blackbody), the live object, whose own public
    sample() supplies its in-range values."""
    b2 = b.to(a.unit)
    aw, bw = np.asarray(a.wave), np.asarray(b2.wave)
    minw, maxw = min(aw[0], bw[0]), max(aw[-1], bw[-1])
    da = np.diff(aw).min() if aw.size > 1 else None
    db = np.diff(bw).min() if bw.size > 1 else None
    if sampling == 'min':
        dw = min(x for x in (da, db) if x is not None)
    elif sampling == 'left':
        dw = da
    elif sampling == 'right':
        dw = db
    else:
        dw = float(sampling)
    q = (maxw - minw) / dw
    if not np.isfinite(q) or q > 2e5:
        return {'ambiguous': True, 'grid': np.zeros(0), 'value': np.zeros(0), 'mask': np.zeros(0, dtype=bool), 'unit': a.unit, 'vunit': a.vunit}
    ambiguous = abs(q - round(q)) < 1e-6 * max(1.0, abs(q)) and (a.unit != b.unit or q != round(q))
    num = int(math.ceil(q))
    grid = np.linspace(minw, maxw, num + 1)
    vals = []
    mask = np.ones(grid.shape, dtype=bool)
    for (w, v), obj in zip(((aw, np.asarray(a.value)), (bw, np.asarray(b2.value))), live):
        inside = (grid >= w.min()) & (grid <= w.max())
        out = fill * np.ones(grid.shape)
        if inside.any() and obj is not None:
            out[inside] = obj.sample(grid[inside], waveunit=a.unit)
        elif inside.any():
            f = scipy.interpolate.interp1d(w, v, kind=method, copy=False, bounds_error=False, fill_value=fill)
            out[inside] = f(grid[inside])
        vals.append(out)
        for end in (w.min(), w.max()):
            near = (np.abs(grid - end) < 1e-9 * abs(end)) & (grid != end)
            mask &= ~near
    with np.errstate(all='ignore'):
        value = OPS[opname](vals[0], vals[1])
    return {'grid': grid, 'value': value, 'mask': mask, 'ambiguous': ambiguous, 'unit': a.unit, 'vunit': a.vunit}


def pointwise_mismatch(rm, exp):
    """Result (MS) against the statement executed on the model (model_binop).  -> None or (what, detail)"""
    if rm.unit != exp['unit'] or len(rm.wave) != exp['grid'].size or not np.allclose(rm.wave, exp['grid'], rtol=1e-12, atol=0):
        return 'grid', 'result grid has %d points in %s, uniform union grid has %d' % (len(rm.wave), rm.unit, exp['grid'].size)
    got = np.asarray(rm.value)[exp['mask']]
    want = exp['value'][exp['mask']]
    fin = np.isfinite(want)
    bad = not np.array_equal(np.isfinite(got), fin)
    if not bad and fin.any():
        scale = max(np.max(np.abs(want[fin])), 1e-300)
        bad = np.max(np.abs(got[fin] - want[fin])) > 1e-9 * scale
    if bad:
        return 'values', 'values %s, operator applied to interpolated operands gives %s' % (np.asarray(rm.value).tolist()[:8], exp['value'].tolist()[:8])
    return None


class ArithHooks(Hooks):
    prefix = 'C13'
    def __init__(self):
        self.pre = None
        self.snap = {}
        self.results = {}      # id -> (fn, args signature, MS result)
        self.results_canon = []
        self.touched = set()
        self.gen = {}          # '@id' -> number of content assignments so far (results before/after are different operands)
        self.edited = set()    # '@id' of spectra whose samples their owner has overwritten (a law no longer describes them)

    def on_dirty(self, it, tid):
        # the owner wrote into the arrays of one of its spectra: new content, like an assignment (results before / after are
        # results of different operands)
        self.gen['@' + tid] = self.gen.get('@' + tid, 0) + 1
        self.edited.add('@' + tid)
        it.fault('assign')

    def _snapshot(self, it):
        L = it.L
        return {k: MS.of(v) for k, v in it.store.items()
                if isinstance(v, L.radiometry.Spectrum) and np.size(v.wave) <= 200000 and wellformed_obj(v)[0]}

    def before(self, it, i, ev):
        self.snap = self._snapshot(it)
        # premise gate: a float sampling is a number in the left operand's unit as the generator knew it
        lu = ev.get('t', {}).get('left_unit')
        if lu is not None and isinstance(ev.get('k', {}).get('sampling'), float):
            a = it.resolve(ev['a'][0])
            if getattr(a, 'waveunit', lu) != lu:
                it.probe('float_sampling_unit_premise_failed')
                return False

    def after(self, it, i, ev, out):
        fn = ev['fn']
        L = it.L
        S = L.radiometry.Spectrum
        tag = ev.get('t', {})
        opname = op_of(fn)
        allowed = {x.lstrip('@') for x in ev.get('inplace', [])}
        new = self._snapshot(it)
        # ---- operands (and every other spectrum) still are what they were, representation included
        it.probe('check:operands')
        for k, m in self.snap.items():
            if k in allowed or k not in new:
                continue
            if not new[k].same(m, rtol=0):
                same_phys = same_physical(new[k], m)[0] if len(new[k].wave) == len(m.wave) else False
                it.violate('C13.operands', {'fn': fn, 'what': 'representation-changed' if same_phys else 'content-changed',
                                            'role': self._role(ev, k)},
                           '%s changed spectrum %s (%s -> %s, %d -> %d samples)' % (fn, k, m.unit, new[k].unit, len(m.wave), len(new[k].wave)), i)
        if fn == 'setattr' and out.ok:
            self.gen[ev['a'][0]] = self.gen.get(ev['a'][0], 0) + 1
            self.edited.add(ev['a'][0])
            it.fault('assign')
        if fn in ('Spectrum.copy', 'deepcopy') and ev.get('id') and ev['a'][0] in self.edited:
            self.edited.add('@' + ev['id'])       # a copy of overwritten samples is a table of those samples, whatever its class
        if fn == 'Spectrum.to' and out.ok and ev['a'][1] in DENSITY:
            # a value-unit conversion: the numbers the operand holds change (earlier results are results of other numbers)
            self.gen[ev['a'][0]] = self.gen.get(ev['a'][0], 0) + 1
            it.probe('value_unit_converted')
            it.fault('repr_change')
        if ev.get('t', {}).get('after_assign'):
            it.probe('op_repeated_after_assignment')
        if ev.get('t', {}).get('after_result_write'):
            it.probe('op_repeated_after_result_write')
        if ev.get('t', {}).get('history_operand'):
            it.probe('operand_with_history')
        if ev.get('t', {}).get('augmented'):
            it.probe('augmented_assignment_form')
        if ev.get('t', {}).get('after_inplace_value_edit'):
            it.probe('op_repeated_after_inplace_value_edit')
        if ev.get('id') and any(self.gen.get('@' + r, 0) for r in it.event_refs(ev)):
            self.touched.add(ev['id'])      # an operand's content was re-assigned by its owner before this call
        if fn == 'churn.spectra':
            it.probe('short_lived_operands')
            it.probe('check:pointwise')
            sref, op_, operands, left = ev['a'][0], ev['a'][1], ev['a'][2], ev['a'][3]
            ms = self.snap.get(sref[1:])
            if ms is None or not out.ok:
                if not out.ok:
                    it.violate('C13.pointwise', {'fn': fn, 'what': 'raised', 'exc': type(out.exc).__name__}, '%r' % (out.exc,), i)
                return
            for (wave, value, unit), res in zip(operands, out.value):
                mt = MS(wave, value, unit, None)
                pair = (mt, ms) if left else (ms, mt)
                held = it.resolve(sref)
                law = held if isinstance(held, L.radiometry.Blackbody) else None
                exp = model_binop(pair[0], pair[1], op_, live=(None, law) if left else (law, None))
                if exp['ambiguous']:
                    continue
                if isinstance(res, str):
                    bad = ('raised', res)
                elif np.size(res[0]) > 200000 or np.size(res[0]) != exp['grid'].size:
                    bad = ('grid', 'result grid has %d points, uniform union grid has %d' % (np.size(res[0]), exp['grid'].size))
                else:
                    bad = pointwise_mismatch(MS(res[0], res[1], res[2], None), exp)
                if bad:
                    it.violate('C13.pointwise', {'fn': fn, 'what': 'short-lived-operands:' + bad[0]},
                               'catalogue entry %s %s the held spectrum, built and dropped in a loop: %s' % (unit, op_, bad[1]), i)
                    break
            return
        if opname is None:
            return
        a_ref, b_ref = ev['a'][0], ev['a'][1]
        a = it.resolve(a_ref)
        b = it.resolve(b_ref)
        k = ev.get('k', {})
        if not out.ok:
            it.fault('refuse')
            it.probe('check:refusal')
            if tag.get('expect') == 'ok':
                it.violate('C13.pointwise', {'fn': fn, 'what': 'raised', 'exc': type(out.exc).__name__},
                           '%s raised %r on valid operands' % (fn, out.exc), i)
            return
        if tag.get('expect') == 'refuse':
            it.violate('C13.scalar', {'fn': fn, 'what': 'accepted-invalid-operand', 'why': tag.get('why', '?')},
                       '%s accepted an operand it must refuse (%s)' % (fn, tag.get('why')), i)
            return
        r = out.value
        if isinstance(r, S) and np.size(r.wave) > 200000:
            # no generated operand pair calls for a grid of this size (premise gate above); do not even copy it
            it.violate('C13.pointwise', {'fn': fn, 'what': 'grid'}, '%s: result grid has %d points' % (fn, np.size(r.wave)), i)
            it.store.pop(ev.get('id'), None)
            return
        if not isinstance(r, S) or not wellformed_obj(r)[0]:
            it.violate('C13.pointwise', {'fn': fn, 'what': 'result-not-a-wellformed-spectrum'}, 'result %r' % (type(r).__name__,), i)
            return
        # ---- the result is a new object
        it.probe('check:new_object')
        if any(r is x for x in (a, b)):
            it.violate('C13.operands', {'fn': fn, 'what': 'result-is-an-operand', 'role': 'result'}, 'the result is one of the operands', i)
        elif any(v is r for kk, v in it.store.items() if kk != ev.get('id')):
            it.violate('C13.operands', {'fn': fn, 'what': 'result-is-an-existing-spectrum', 'role': 'result'},
                       'the result is a spectrum that an earlier operation already handed out, not a new one', i)
        if fn == 'material.product':
            it.probe('material_product')
            if tag.get('after_result_write'):
                it.probe('material_product_after_result_edit')
        rm = MS.of(r)
        spec_a = isinstance(a, S)
        spec_b = isinstance(b, S)
        if spec_a and spec_b:
            ma = self.snap.get(a_ref[1:])
            mb = self.snap.get(b_ref[1:])
            if ma is None or mb is None:
                return
            it.probe('pair:%s-%s' % tuple(sorted((ma.unit, mb.unit))))
            if ma.wave[-1] < mb.to(ma.unit).wave[0] or mb.to(ma.unit).wave[-1] < ma.wave[0]:
                it.probe('disjoint_ranges')
            samp = k.get('sampling', 'min')
            it.probe('sampling:%s' % (samp if isinstance(samp, str) else 'float'))
            BB = L.radiometry.Blackbody
            live = (a if isinstance(a, BB) else None, b if isinstance(b, BB) else None)
            if any(live):
                it.probe('blackbody_operand')
                # "each operand's interpolated value": for an operand that is a law, the law must describe the samples the operand
                # currently holds (unit conversions included) -- judged unless the owner has overwritten the samples
                for obj, m_, ref_ in zip(live, (ma, mb), (a_ref, b_ref)):
                    if obj is None or ref_ in self.edited:
                        continue
                    it.probe('check:law_matches_samples')
                    try:
                        law = np.asarray(obj.sample(np.asarray(m_.wave), waveunit=m_.unit), dtype=float)
                        bad = law.shape != np.shape(m_.value) or not np.allclose(law, m_.value, rtol=1e-9, atol=0)
                    except Exception:       # noqa
                        bad = True
                    if bad:
                        it.violate('C13.pointwise', {'fn': fn, 'what': 'law-not-the-current-values'},
                                   '%s: the operand %s is sampled by a law that no longer gives the values it holds (%s, %s)'
                                   % (fn, ref_, m_.unit, m_.vunit), i)
            exp = model_binop(ma, mb, opname, samp, k.get('method', 'linear'), k.get('fill_value', 0), live=live)
            if exp['ambiguous']:
                it.probe('ambiguous_grid')
            else:
                it.probe('check:pointwise')
                if rm.unit != exp['unit'] or len(rm.wave) != exp['grid'].size or \
                        not np.allclose(rm.wave, exp['grid'], rtol=1e-12, atol=0):
                    it.violate('C13.pointwise', {'fn': fn, 'what': 'grid'},
                               '%s: result grid has %d points in %s from %r to %r; uniform union grid has %d points from %r to %r'
                               % (fn, len(rm.wave), rm.unit, rm.wave[0], rm.wave[-1], exp['grid'].size, exp['grid'][0], exp['grid'][-1]), i)
                else:
                    got = np.asarray(rm.value)[exp['mask']]
                    want = exp['value'][exp['mask']]
                    fin = np.isfinite(want)
                    bad = not np.array_equal(np.isfinite(got), fin)
                    if not bad and fin.any():
                        scale = max(np.max(np.abs(want[fin])), 1e-300)
                        bad = np.max(np.abs(got[fin] - want[fin])) > 1e-9 * scale
                    if bad:
                        it.violate('C13.pointwise', {'fn': fn, 'what': 'values', 'method': k.get('method', 'linear')},
                                   '%s: values %s, operator applied to interpolated operands gives %s'
                                   % (fn, np.asarray(rm.value).tolist()[:8], exp['value'].tolist()[:8]), i)
            if ma.vunit is None and mb.vunit in DENSITY:
                # unitless (x) density: the statement's "does not depend on the unit" needs the result to stay a density
                if opname != 'multiply':
                    it.probe('unit_algebra_undefined')
                    return
                it.probe('check:density_label')
                if rm.vunit is None:
                    it.violate('C13.unit_free', {'what': 'density-label-lost', 'op': 'multiply', 'left': 'unitless', 'right': 'density'},
                               '%s of a unitless spectrum with a %s spectrum returns per-%s values labelled unitless, so the result '
                               'depends on the unit the left operand happens to be in' % (fn, mb.vunit, ma.unit), i)
                return
            # ---- commutativity and unit independence (history oracles over earlier results)
            key = (opname, a_ref, b_ref, samp if isinstance(samp, str) else float(samp), k.get('method', 'linear'), k.get('fill_value', 0))
            self._history_checks(it, i, fn, key, rm, ma, mb, exp['ambiguous'])
        elif spec_a or spec_b:
            if tag.get('nd_left'):
                it.probe('ndarray_times_spectrum')
            it.probe('check:scalar')
            it.probe('scalar_op')
            if np.ndim(b if spec_a else a) == 0 and (b if spec_a else a) in (0, 1):
                it.probe('identity_scalar')
            sref = a_ref if spec_a else b_ref
            ms = self.snap.get(sref[1:])
            other = b if spec_a else a
            if ms is None:
                return
            with np.errstate(all='ignore'):
                want = OPS[opname](np.asarray(ms.value), np.asarray(other, dtype=float)) if spec_a else \
                    OPS[opname](np.asarray(ms.value), np.asarray(other, dtype=float))   # only * has a reflected form
            ok = rm.unit == ms.unit and rm.vunit == ms.vunit and rm.wave == ms.wave and \
                np.array_equal(np.isfinite(rm.value), np.isfinite(want)) and \
                np.allclose(np.asarray(rm.value)[np.isfinite(want)], want[np.isfinite(want)], rtol=1e-13, atol=0)
            if not ok:
                it.violate('C13.scalar', {'fn': fn, 'what': 'element-wise-on-unchanged-grid',
                                          'operand': 'vector' if np.ndim(other) else 'scalar'},
                           '%s with %r: wave %s -> %s, values %s, expected %s'
                           % (fn, other, ms.wave[:4], rm.wave[:4], rm.value[:4], want.tolist()[:4]), i)

    @staticmethod
    def _role(ev, k):
        for n, a in enumerate(ev.get('a', [])):
            if a == '@' + k:
                return 'arg%d' % n
        return 'not-an-argument'

    def _history_checks(self, it, i, fn, key, rm, ma, mb, ambiguous):
        opname, a_ref, b_ref, samp, method, fill = key
        if not label_meaningful(opname, ma.vunit, mb.vunit, fill):
            it.probe('unit_algebra_undefined')
            return
        rec = {'key': key, 'rm': rm, 'ua': ma.unit, 'ub': mb.unit, 'amb': ambiguous, 'vsame': ma.vunit == mb.vunit,
               'gen': (self.gen.get(a_ref, 0), self.gen.get(b_ref, 0))}
        ends = ends_m(ma, mb)
        for old in self.results_canon:
            ok_opts = (old['key'][4], old['key'][5]) == (method, fill)
            if old['amb'] or ambiguous or not ok_opts:
                continue
            # unit independence: same operands, same options, operands meanwhile expressed in other units
            if old['key'] == key and (old['ua'], old['ub']) != (ma.unit, mb.unit) and old['gen'] == (self.gen.get(a_ref, 0), self.gen.get(b_ref, 0)):
                it.probe('check:unit_free')
                it.probe('op_repeated_after_to')
                ok, why = same_physical(rm, old['rm'], ends=ends)
                if not ok:
                    it.violate('C13.unit_free', {'fn': fn},
                               '%s on the same two spectra gave a physically different result with operands in (%s, %s) than in (%s, %s): %s'
                               % (fn, ma.unit, mb.unit, old['ua'], old['ub'], why), i)
            # commutativity: b op a with left/right swapped
            swapped = {'left': 'right', 'right': 'left'}.get(samp, samp)
            if opname in ('add', 'multiply') and old['key'][0] == opname and old['key'][1] == b_ref and old['key'][2] == a_ref \
                    and old['key'][3] == swapped and rec['vsame'] and (old['ua'], old['ub']) == (mb.unit, ma.unit) \
                    and old['gen'] == (self.gen.get(b_ref, 0), self.gen.get(a_ref, 0)):
                it.probe('check:commute')
                it.probe('commuted_pair')
                ok, why = same_physical(rm, old['rm'], ends=ends)
                if not ok:
                    it.violate('C13.commute', {'op': opname}, 'a %s b and b %s a differ as physical spectra: %s' % (opname, opname, why), i)
        self.results_canon.append(rec)
        if len(self.results_canon) > 60:
            self.results_canon.pop(0)


class SpectrumArithScenario(Scenario):
    name = 'spectrum_arith'
    prop = 'C13'
    quick_runs = 3000
    thorough_runs = 200000
    audit_every = 16
    mem_gb = 2.5
    rule = ('each run = 1-3 callers over a shared pool of 2-5 spectra (identical, nested, overlapping and disjoint ranges; uniform and '
            'non-uniform grids; unitless and flux-density values; all four wavelength units): histories of binary operators (method and '
            'dunder forms; sampling min/left/right/float; linear/quadratic/cubic; fill values), scalar / vector / refused operands, queries, '
            'edits of results, and to(unit) on shared spectra by their owner between uses, with repeated and operand-swapped operations; '
            'further workload ingredients added by the seeded rounds are listed in MANIFEST.json and DESIGN.md section 15; distinct = distinct history digest; non-trivial = at least one representation change, refusal, duplicate or interleaving fired '
            'and at least one model comparison was made')
    state_measure = 'distinct (operator form, unit pair, sampling option, range relation) combinations reached'
    assumptions = ['the common-grid length ceil(span/dwave) is judged only when span/dwave is at least 1e-6 away from an integer or is an '
                   'exact float integer with both operands in the same unit (soundness rule 3); other cases are counted as ambiguous_grid',
                   'grid points within 1e-9 (relative) of an operand\'s end, other than the two ends of the union grid, are not compared',
                   'commutativity is judged only for operands with the same value unit (the result inherits the left operand\'s value unit)',
                   'scipy.interpolate.interp1d is the trusted interpolation reference; two-element fill values are not generated for binary '
                   'operators (the statement speaks of "the fill value")']
    must_hit = ['pair:nm-nm', 'pair:nm-um', 'pair:angstrom-um', 'pair:m-nm', 'disjoint_ranges', 'sampling:left', 'sampling:right', 'sampling:float',
                'op_repeated_after_to', 'commuted_pair', 'scalar_op', 'op_repeated_after_assignment', 'identity_scalar', 'ndarray_times_spectrum', 'blackbody_operand', 'op_repeated_after_result_write', 'operand_with_history', 'augmented_assignment_form', 'op_repeated_after_inplace_value_edit', 'material_product',
                'material_product_after_result_edit', 'short_lived_operands', 'value_unit_converted']
    probe_names = must_hit + ['coldwarm_audit', 'ambiguous_grid', 'pair:um-um', 'pair:angstrom-nm', 'pair:m-um', 'pair:angstrom-m']

    # ---------------------------------------------------------------- generation
    def make_pool(self, rng, events, force_units=None):
        n = rng.randint(2, 5)
        base = rng.choice([400, 500])
        dens = rng.choice(['photlam', 'wlam', 'flam'])
        pool = []
        for j in range(n):
            unit = (force_units[j % len(force_units)] if force_units else rng.choice(['nm', 'nm', 'um', 'angstrom', 'm']))
            rel = rng.choice(['same', 'nested', 'overlap', 'disjoint', 'random']) if j else 'same'
            npts = rng.randint(3, 9)
            step = rng.choice([5, 10, 20])
            if rel == 'same' or j == 0:
                start = base
            elif rel == 'nested':
                start = base + step
                npts = max(3, npts - 2)
            elif rel == 'overlap':
                start = base + step * rng.randint(2, 4) + rng.choice([0, 2])
            elif rel == 'disjoint':
                start = base + 400 + rng.randint(0, 50)
            else:
                start = base + rng.randint(-50, 200)
            if rng.random() < 0.6:
                wave = [start + step * i for i in range(npts)]
            else:
                wave = [start]
                for _ in range(npts - 1):
                    wave.append(wave[-1] + rng.choice([3, 5, 7, 10, 16]))
            # keep span/dwave away from integers: nudge the last sample by a fraction of a step
            if rng.random() < 0.7:
                wave[-1] = wave[-1] + rng.choice([0.3, 0.5, 0.7]) * min(b - a for a, b in zip(wave, wave[1:]))
            f = factor('nm', unit)
            wave = [w * f for w in wave]
            vunit = rng.choice([None, None, None, dens, dens])
            value = [round(rng.uniform(0.2, 2.0), 3) for _ in wave]
            if rng.random() < 0.2:
                value = [rng.randint(1, 4) for _ in wave]       # counts / a boxcar typed in as whole numbers: an integer-typed value array
            sid = 'S%d' % j
            if j == n - 1 and n >= 3 and rng.random() < 0.3:
                vunit = rng.choice(['photlam', 'wlam'])
                events.append({'c': -1, 'fn': 'Blackbody', 'id': sid, 'a': [wave, rng.choice([3000.0, 5800.0])], 'k': {'waveunit': unit, 'valueunit': vunit}})
            else:
                events.append({'c': -1, 'fn': 'Spectrum', 'id': sid, 'a': [wave, value], 'k': {'waveunit': unit, 'valueunit': vunit}})
            pool.append({'id': sid, 'n': npts, 'unit': unit, 'vunit': vunit, 'wave_nm': [w / f for w in wave]})
        return pool

    def caller_prog(self, rng, c, pool, nsteps):
        prog = []
        cnt = [0]
        mine = []       # results of this caller: (id, unit)
        mine_spec = []  # (id, number of samples) of results whose length is known: scalar / vector ops keep the grid

        def nid(tag='r'):
            cnt[0] += 1
            return 'c%d_%s%d' % (c, tag, cnt[0])

        def E(fn, a, k=None, t=None, **extra):
            e = {'c': c, 'fn': fn, 'a': a, 'id': nid()}
            if k:
                e['k'] = k
            if t:
                e['t'] = t
            e.update(extra)
            prog.append(e)
            return e

        def binop_event(a, b, opname=None, samp=None):
            opname = opname or rng.choice(list(OPS))
            k = {}
            if samp is None:
                r = rng.random()
                samp = 'min' if r < 0.4 else ('left' if r < 0.55 else ('right' if r < 0.7 else ('float' if r < 0.85 else None)))
            if samp == 'float':
                # a float sampling is expressed in the left operand's current unit, which only the owner (caller 0) knows
                samp = rng.choice([1.3, 2.7, 4.1]) * factor('nm', a['unit']) if c == 0 else 'min'
            tt = {'expect': 'ok'}
            if isinstance(samp, float):
                tt['left_unit'] = a['unit']
            if samp is not None:
                k['sampling'] = samp
            if rng.random() < 0.3:
                k['method'] = rng.choice(['linear', 'quadratic', 'cubic'])
                if min(a['n'], b['n']) < 4:
                    k['method'] = 'linear'
            if rng.random() < 0.3:
                k['fill_value'] = rng.choice([0, 1, 0.5])
            if k or rng.random() < 0.5:
                return E('Spectrum.' + opname, ['@' + a['id'], '@' + b['id']], k, t=tt)
            sym = [s for s, o in DUNDER.items() if o == opname][0]
            if rng.random() < 0.2:
                sym = sym + '='         # the augmented form: still a new spectrum, the left operand (held by others too) untouched
            return E(sym, ['@' + a['id'], '@' + b['id']], t={'expect': 'ok', 'augmented': sym.endswith('=')})

        for _ in range(nsteps):
            r = rng.random()
            a, b = rng.sample(pool, 2) if len(pool) >= 2 and rng.random() < 0.85 else (rng.choice(pool), rng.choice(pool))
            if r < 0.06:
                # an operand with a history: a private copy of a pool spectrum, cropped or trimmed by its owner, then used on either
                # side (the oracle takes both operands from their live public state, so a fresh spectrum in that state is the reference)
                s0 = rng.choice([x for x in pool if x['n'] >= 5] or pool)
                cid = nid('cp')
                prog.append({'c': c, 'fn': 'Spectrum.copy', 'a': ['@' + s0['id']], 'id': cid})
                f_ = factor('nm', s0['unit'])
                wn = s0['wave_nm']
                i0 = rng.randint(0, max(0, len(wn) - 4))
                j0 = rng.randint(min(len(wn) - 1, i0 + 2), len(wn) - 1)
                if rng.random() < 0.7:
                    # (bounds taken from the copy's live grid: the owner of the shared original may have changed its unit meanwhile)
                    prog.append({'c': c, 'fn': 'h.crop_idx', 'a': ['@' + cid, i0, j0], 'id': nid('ed'), 'inplace': ['@' + cid]})
                else:
                    prog.append({'c': c, 'fn': 'Spectrum.trim', 'a': ['@' + cid, 1e-9], 'id': nid('ed'), 'inplace': ['@' + cid]})
                hist = {'id': cid, 'n': 3, 'unit': s0['unit'], 'vunit': s0.get('vunit'), 'wave_nm': wn[i0:j0 + 1]}
                # (not the spectrum it was copied from: copy - original is identically zero, and a relative comparison of two
                #  zero spectra computed in different units is a comparison of rounding noise)
                other = rng.choice([x for x in pool if x['id'] != s0['id']] or pool)
                if other['id'] == s0['id']:
                    continue
                for x, y in ((hist, other), (other, hist)):
                    e = binop_event(x, y, samp=rng.choice(['min', 'min', 'left', 'right']))
                    e.setdefault('t', {})['history_operand'] = True
                    e.get('k', {}).pop('method', None)
                    mine.append(e['id'])
                continue
            if r >= 0.095 and r < 0.115:
                # a catalogue of filters tabulated with the same number of points, each combined once with a held spectrum and dropped
                plain = [x for x in pool if x.get('vunit') is None] or pool
                s0 = rng.choice(plain)
                npt = rng.randint(3, 6)
                cat = []
                for _k in range(rng.randint(4, 8)):
                    st = rng.choice([5.0, 10.0, 20.0])
                    w0 = s0['wave_nm'][0] + rng.choice([-60, -20, 0, 15, 40, 150, 420]) + rng.choice([0, 0.3])
                    wv = [w0 + st * j for j in range(npt)]
                    wv[-1] += 0.37 * st
                    u = rng.choice(['nm', 'nm', 'um', 'm'])
                    cat.append([[x * factor('nm', u) for x in wv], [round(rng.uniform(0.2, 2.0), 3) for _ in wv], u])
                prog.append({'c': c, 'fn': 'churn.spectra', 'a': ['@' + s0['id'], rng.choice(['add', 'multiply', 'subtract']), cat, rng.random() < 0.5],
                             'id': nid('churn')})
                continue
            if r < 0.035 + 0.06:
                # a Material hands out contam * transmission and contam * emission: products like any other -- new spectra, computed
                # from the operands as they are now -- however often they are asked for and whatever the caller did with the last one
                plain = [x for x in pool if x.get('vunit') is None]
                sp = rng.choice(plain or pool)
                others = [x for x in plain if x['id'] != sp['id']]
                cref = '@' + rng.choice(others)['id'] if others and rng.random() < 0.6 else rng.choice([0.9, 1, 0.5])
                which = rng.choice(['transmission', 'emission'])
                mid = nid('mat')
                prog.append({'c': c, 'fn': 'Material', 'a': [], 'k': {which: '@' + sp['id'], 'contam': cref}, 'id': mid})
                e = E('material.product', [cref, '@' + sp['id'], '@' + mid, which], t={'expect': 'ok'})
                mine.append(e['id'])
                for _k in range(rng.randint(1, 2)):
                    how = rng.choice(['scale', 'to', 'crop', 'none'])
                    if how == 'scale':
                        prog.append({'env': 'perturb_attr', 'c': c, 'target': '@' + e['id'], 'attr': rng.choice(['wave', 'value']),
                                     'how': 'scale', 'by': rng.choice([1.05, 0.5, 1e-3]), 'unshared': True})
                    elif how == 'to':
                        prog.append({'c': c, 'fn': 'Spectrum.to', 'a': ['@' + e['id'], rng.choice(['um', 'm', 'angstrom'])], 'id': nid('ed'),
                                     'inplace': ['@' + e['id']]})
                    elif how == 'crop':
                        prog.append({'c': c, 'fn': 'h.crop_idx', 'a': ['@' + e['id'], 1, 2], 'id': nid('ed'), 'inplace': ['@' + e['id']]})
                    d = copy.deepcopy(e)
                    d['id'] = nid('again')
                    d['t']['after_result_write'] = how != 'none'
                    prog.append(d)
                    mine.append(d['id'])
                    e = d
                continue
            if r < 0.38:
                e = binop_event(a, b)
                mine.append(e['id'])
                if rng.random() < 0.12:
                    # the caller writes in place into the arrays its result hands out, then performs the same operation again
                    prog.append({'env': 'perturb_attr', 'c': c, 'target': '@' + e['id'], 'attr': rng.choice(['wave', 'wave', 'value']),
                                 'how': 'scale', 'by': rng.choice([1.05, 0.5, 1e-3]), 'unshared': True})
                    d = copy.deepcopy(e)
                    d['id'] = nid('again')
                    d.setdefault('t', {})['after_result_write'] = True
                    prog.append(d)
                    mine.append(d['id'])
                if rng.random() < 0.3 and op_of(e['fn']) in ('add', 'multiply'):
                    # the commuted twin, left/right swapped
                    k2 = dict(e.get('k', {}))
                    if k2.get('sampling') in ('left', 'right'):
                        k2['sampling'] = {'left': 'right', 'right': 'left'}[k2['sampling']]
                    elif isinstance(k2.get('sampling'), float):
                        k2['sampling'] = k2['sampling'] * factor(a['unit'], b['unit'])   # same physical step, new left unit
                    if e['fn'] in DUNDER:
                        E(e['fn'], [e['a'][1], e['a'][0]], t={'expect': 'ok'})
                    else:
                        t2 = {'expect': 'ok'}
                        if isinstance(k2.get('sampling'), float):
                            t2['left_unit'] = b['unit']
                        E(e['fn'], [e['a'][1], e['a'][0]], k2, t=t2)
            elif r < 0.44 and mine_spec:
                # equal-length vector times a spectrum that earlier arithmetic produced, vector on either side
                rid, n_r = rng.choice(mine_spec)
                vec = {'$nd': [round(rng.uniform(0.5, 2), 2) for _ in range(n_r)]}
                if rng.random() < 0.5:
                    E('s*', [vec, '@' + rid], t={'expect': 'ok', 'nd_left': True})
                else:
                    E('s*', ['@' + rid, vec], t={'expect': 'ok'})
            elif r < 0.5:
                s = rng.choice(pool)
                opname = rng.choice(list(OPS))
                kind = rng.choice(['scalar', 'scalar', 'vector', 'rscalar', 'bad-length', 'bad-type'])
                sym = [x for x, o in DUNDER.items() if o == opname][0]
                if kind == 'scalar':
                    E(rng.choice([sym, 'Spectrum.' + opname]), ['@' + s['id'], rng.choice([2, 0.5, 3.0, 1.5, 0, 1, 1.0, 0.0])], t={'expect': 'ok'})
                    mine.append(prog[-1]['id'])
                    mine_spec.append((prog[-1]['id'], s['n']))
                elif kind == 'vector':
                    v = [round(rng.uniform(0.5, 2), 2) for _ in range(s['n'])]
                    if opname == 'multiply' and rng.random() < 0.4:
                        E('s*', [{'$nd': v}, '@' + s['id']], t={'expect': 'ok', 'nd_left': True})
                    else:
                        E(rng.choice([sym, 'Spectrum.' + opname]), ['@' + s['id'], rng.choice([v, {'$nd': v}, {'$tuple': v}])], t={'expect': 'ok'})
                elif kind == 'rscalar':
                    E('s*', [rng.choice([2, 0.25, 1, 1.0]), '@' + s['id']], t={'expect': 'ok'})
                    mine.append(prog[-1]['id'])
                elif kind == 'bad-length':
                    E(rng.choice([sym, 'Spectrum.' + opname]), ['@' + s['id'], [1.0] * (s['n'] + rng.choice([1, 2]))],
                      t={'expect': 'refuse', 'why': 'vector-length'})
                else:
                    E(rng.choice([sym, 'Spectrum.' + opname]), ['@' + s['id'], rng.choice([{'x': 1}, 'two', None])],
                      t={'expect': 'refuse', 'why': 'operand-type'})
            elif r < 0.68 and c == 0:
                s = rng.choice(pool)
                if s.get('vunit') in DENSITY and rng.random() < 0.3:
                    # the other kind of representation change: the value unit of a flux density
                    unit = rng.choice([u for u in ('photlam', 'wlam', 'flam') if u != s['vunit']])
                    e = {'c': c, 'fn': 'Spectrum.to', 'a': ['@' + s['id'], unit], 'id': nid('to'), 'inplace': ['@' + s['id']], 't': {'repr': True, 'value_unit': True}}
                    prog.append(e)
                    s['vunit'] = unit
                else:
                    unit = rng.choice([u for u in ('nm', 'um', 'angstrom', 'm') if u != s['unit']])
                    e = {'c': c, 'fn': 'Spectrum.to', 'a': ['@' + s['id'], unit], 'id': nid('to'), 'inplace': ['@' + s['id']], 't': {'repr': True}}
                    prog.append(e)
                    s['unit'] = unit
                # and repeat an earlier operation on that spectrum right away (F6 across a representation change)
                earlier = [x for x in prog if 'fn' in x and op_of(x['fn']) and ('@' + s['id']) in x['a'] and x.get('t', {}).get('expect') == 'ok'
                           and all(isinstance(y, str) for y in x['a']) and not isinstance(x.get('k', {}).get('sampling'), float)]
                if earlier and rng.random() < 0.8:
                    d = copy.deepcopy(rng.choice(earlier))
                    d['id'] = nid('rep')
                    d.setdefault('t', {})['dup'] = True
                    prog.append(d)
            elif r < 0.73 and c == 0:
                s = rng.choice(pool)
                newv = [round(rng.uniform(0.2, 2.0), 3) for _ in range(s['n'])]
                prog.append({'c': c, 'fn': 'setattr', 'a': ['@' + s['id'], 'value', newv], 'id': nid('set'), 'inplace': ['@' + s['id']], 't': {'assign': True}})
                earlier = [x for x in prog if 'fn' in x and op_of(x['fn']) and ('@' + s['id']) in x['a'] and x.get('t', {}).get('expect') == 'ok'
                           and all(isinstance(y, str) for y in x['a']) and not isinstance(x.get('k', {}).get('sampling'), float)]
                if earlier:
                    d = copy.deepcopy(rng.choice(earlier))
                    d['id'] = nid('rep')
                    d.setdefault('t', {})['after_assign'] = True
                    prog.append(d)
            elif r < 0.755 and c == 0:
                s = rng.choice(pool)
                prog.append({'env': 'perturb_attr', 'c': c, 'target': '@' + s['id'], 'attr': 'value', 'how': 'noise', 'seed': rng.randrange(10 ** 6)})
                earlier = [x for x in prog if 'fn' in x and op_of(x['fn']) and ('@' + s['id']) in x['a'] and x.get('t', {}).get('expect') == 'ok'
                           and all(isinstance(y, str) for y in x['a']) and not isinstance(x.get('k', {}).get('sampling'), float)]
                if earlier:
                    d = copy.deepcopy(rng.choice(earlier))
                    d['id'] = nid('rep')
                    d.setdefault('t', {})['after_inplace_value_edit'] = True
                    prog.append(d)
            elif r < 0.78 and mine:
                rid = rng.choice(mine)
                mine_spec[:] = [x for x in mine_spec if x[0] != rid]
                what = rng.choice(['to', 'crop', 'trim'])
                if what == 'to':
                    prog.append({'c': c, 'fn': 'Spectrum.to', 'a': ['@' + rid, rng.choice(['nm', 'um', 'm'])], 'id': nid('ed'), 'inplace': ['@' + rid]})
                elif what == 'crop':
                    prog.append({'c': c, 'fn': 'Spectrum.crop', 'a': ['@' + rid, 1e-12, 1e12], 'id': nid('ed'), 'inplace': ['@' + rid]})
                else:
                    prog.append({'c': c, 'fn': 'Spectrum.trim', 'a': ['@' + rid, 1e-9], 'id': nid('ed'), 'inplace': ['@' + rid]})
            else:
                s = rng.choice(pool)
                pts = sorted(rng.uniform(s['wave_nm'][0] - 5, s['wave_nm'][-1] + 5) for _ in range(rng.randint(1, 4)))
                E('Spectrum.sample', ['@' + s['id'], pts], {'waveunit': 'nm'}, t={'query': True})
        return prog

    def generate(self, rng):
        world = {'shapes': {}, 'cache': 32, 'rng_seed': rng.randrange(2 ** 31)}
        K = rng.choice([1, 2, 2, 3])
        world['K'] = K
        events = []
        pool = self.make_pool(rng, events)
        progs = [self.caller_prog(rng, c, pool, rng.randint(3, 14 * self.depth)) for c in range(K)]
        out = []
        pos = [0] * K
        while True:
            runnable = [c for c in range(K) if pos[c] < len(progs[c])]
            if not runnable:
                break
            c = rng.choice(runnable)
            out.append(progs[c][pos[c]])
            pos[c] += 1
        return {'scenario': self.name, 'world': world, 'events': events + out}

    def prelude(self, verif_seed):
        import random
        runs = []
        combos = [['nm', 'nm'], ['nm', 'um'], ['um', 'angstrom'], ['m', 'nm'], ['angstrom', 'nm'], ['um', 'm']]
        for j, units in enumerate(combos):
            rng = random.Random(verif_seed * 49979687 + j)
            world = {'shapes': {}, 'cache': 32, 'rng_seed': 1, 'K': 1}
            events = []
            f0, f1 = factor('nm', units[0]), factor('nm', units[1])
            wa = [(400 + 10 * i) * f0 for i in range(7)]
            wa[-1] = 463.0 * f0
            wb = [(430 + 7 * i) * f1 for i in range(6)]
            wb[-1] = 468.5 * f1
            wc = [(900 + 10 * i + (0.5 if i == 4 else 0)) * f1 for i in range(5)]
            events.append({'c': -1, 'fn': 'Spectrum', 'id': 'S0', 'a': [wa, [1.0, 0.8, 1.2, 0.5, 0.9, 1.1, 0.7]], 'k': {'waveunit': units[0]}})
            events.append({'c': -1, 'fn': 'Spectrum', 'id': 'S1', 'a': [wb, [0.3, 0.6, 0.9, 0.4, 0.8, 0.5]], 'k': {'waveunit': units[1]}})
            events.append({'c': -1, 'fn': 'Spectrum', 'id': 'S2', 'a': [wc, [0.2, 0.4, 0.6, 0.8, 1.0]], 'k': {'waveunit': units[1]}})
            n = [0]

            def E(fn, a, k=None, t=None, **extra):
                n[0] += 1
                e = {'c': 0, 'fn': fn, 'a': a, 'id': 'p%d' % n[0], 't': t or {'expect': 'ok'}}
                if k:
                    e['k'] = k
                e.update(extra)
                events.append(e)

            events.append({'c': -1, 'fn': 'Blackbody', 'id': 'BB', 'a': [[w * f1 for w in (420.0, 430.0, 441.0)], 5000.0], 'k': {'waveunit': units[1], 'valueunit': 'photlam'}})
            for opname in OPS:
                E('Spectrum.' + opname, ['@S0', '@S1'])
            E('Spectrum.multiply', ['@BB', '@S0'])
            events.append({'c': 0, 'fn': 'Spectrum.to', 'a': ['@BB', 'wlam'], 'id': 'bbto', 'inplace': ['@BB'], 't': {'repr': True, 'value_unit': True}})
            E('Spectrum.multiply', ['@BB', '@S0'])
            E('Spectrum.multiply', ['@S0', '@BB'])
            cat = [[[(400 + 37 * q + 10 * j + (0.37 if j == 4 else 0)) * factor('nm', u) for j in range(5)], [0.5 + 0.1 * j + 0.01 * q for j in range(5)], u]
                   for q, u in enumerate(['nm', 'um', 'nm', 'm', 'um', 'nm', 'nm', 'um'])]
            events.append({'c': 0, 'fn': 'churn.spectra', 'a': ['@S0', 'multiply', cat, False], 'id': 'churn1'})
            events.append({'c': 0, 'fn': 'churn.spectra', 'a': ['@S1', 'add', cat, True], 'id': 'churn2'})
            E('Spectrum.add', ['@BB', '@S0'], {'fill_value': 0})
            for samp in ('left', 'right', 1.7 * f0):
                E('Spectrum.add', ['@S0', '@S1'], {'sampling': samp})
            E('Spectrum.add', ['@S1', '@S0'], {'sampling': 'left'})       # commuted twin of sampling='right'
            E('s*', ['@S0', '@S1'])
            E('s*', ['@S1', '@S0'])
            E('s+', ['@S0', '@S2'])                                         # disjoint ranges
            E('s*', ['@S0', 2.0])
            E('s/', ['@S0', [1, 2, 3, 4, 5, 6, 7]])
            E('s*', [3, '@S0'])
            E('s*', ['@S0', 2.0])
            E('s*', [{'$nd': [1, 2, 3, 4, 5, 6, 7]}, '@p%d' % n[0]], t={'expect': 'ok', 'nd_left': True})
            E('s*', [{'$nd': [1, 2, 3, 4, 5, 6, 7]}, '@S0'], t={'expect': 'ok', 'nd_left': True})
            E('s+', ['@S0', 0])
            E('s*', ['@S0', 1.0])
            E('s*', [1, '@S0'])
            events.append({'c': 0, 'fn': 'Spectrum.to', 'a': ['@p%d' % n[0], 'um' if units[0] != 'um' else 'nm'], 'id': 'edit_identity', 'inplace': ['@p%d' % n[0]]})
            events.append({'c': 0, 'fn': 'setattr', 'a': ['@S1', 'value', [0.9, 0.1, 0.5, 0.7, 0.2, 0.6]], 'id': 'set1', 'inplace': ['@S1'], 't': {'assign': True}})
            E('s*', ['@S0', '@S1'], t={'expect': 'ok', 'after_assign': True})
            E('s+', ['@S0', [1.0, 2.0]], t={'expect': 'refuse', 'why': 'vector-length'})
            # the caller writes in place into the arrays a result hands out, then performs the operation again
            E('Spectrum.add', ['@S0', '@S1'])
            events.append({'env': 'perturb_attr', 'c': 0, 'target': '@p%d' % n[0], 'attr': 'wave', 'how': 'scale', 'by': 1.05, 'unshared': True})
            E('Spectrum.add', ['@S0', '@S1'], t={'expect': 'ok', 'after_result_write': True})
            # an operand with a history: private copy, cropped by its owner, used on either side
            events.append({'c': 0, 'fn': 'Spectrum.copy', 'a': ['@S0'], 'id': 'cp0'})
            events.append({'c': 0, 'fn': 'Spectrum.crop', 'a': ['@cp0', wa[2] * (1 - 1e-9), wa[5] * (1 + 1e-9)], 'id': 'cp0e', 'inplace': ['@cp0']})
            E('Spectrum.multiply', ['@cp0', '@S1'], {'sampling': 'left'}, t={'expect': 'ok', 'history_operand': True})
            E('Spectrum.add', ['@S1', '@cp0'], t={'expect': 'ok', 'history_operand': True})
            other = 'um' if units[0] != 'um' else 'nm'
            events.append({'c': 0, 'fn': 'Spectrum.to', 'a': ['@S0', other], 'id': 'to1', 'inplace': ['@S0'], 't': {'repr': True}})
            E('s*', ['@S0', '@S1'], t={'expect': 'ok', 'dup': True})
            E('Spectrum.add', ['@S0', '@S1'], {'sampling': 'right'}, t={'expect': 'ok', 'dup': True})
            runs.append({'scenario': self.name, 'world': world, 'events': events, 'run_index': -100 + j, 'seed': 0})
        return runs

    @staticmethod
    def _serial_compare(L, it, solo, hooks, ev, tainted):
        """True = agrees, None = comparison not defined (taints descendants), (what, why) = differs."""
        S = L.radiometry.Spectrum
        if ev['id'] in hooks.touched or ev['id'] in tainted or any(r in tainted for r in it.event_refs(ev)):
            return None
        x, y = it.store.get(ev['id']), solo.store.get(ev['id'])
        if any(isinstance(z, S) and np.size(z.wave) > 200000 for z in (x, y)):
            return None         # reported by the pointwise oracle; never copy such a grid
        if (x is None) != (y is None):
            return ('outcome', 'succeeded in one execution and failed in the other')
        if x is None:
            return True
        if any(e2.get('inplace') and ('@' + ev['id']) in e2['inplace'] for e2 in it.run_events):
            return None
        opname = op_of(ev['fn'])
        if isinstance(x, S) and isinstance(y, S) and wellformed_obj(x)[0] and wellformed_obj(y)[0]:
            mx, my = MS.of(x), MS.of(y)
            both = bool(opname) and all(isinstance(r, str) for r in ev['a'])
            if both and len(mx.wave) != len(my.wave):
                return None     # grid length may legitimately depend on rounding in another unit
            ends = []
            if both:
                ops_ = [solo.store.get(r[1:]) for r in ev['a']]
                if not all(isinstance(o, S) and wellformed_obj(o)[0] for o in ops_):
                    return None
                mo = [MS.of(o) for o in ops_]
                if not label_meaningful(opname, mo[0].vunit, mo[1].vunit, ev.get('k', {}).get('fill_value', 0)):
                    return None     # the result's value-unit label is not defined; see label_meaningful
                ends = ends_m(*mo)
            elif opname and mx.vunit in DENSITY and opname not in ('multiply', 'divide'):
                return None         # density (+,-,**) a bare number: the number is in the current units, not unit-free
            ok, why = same_physical(mx, my, ends=ends)
            return True if ok else ('value', why)
        if isinstance(x, np.ndarray) and isinstance(y, np.ndarray):
            if x.dtype == object or y.dtype == object:
                return None     # not a numeric result at all: reported by the per-step oracle
            ok = x.shape == y.shape and np.allclose(x, y, rtol=1e-9, atol=1e-300, equal_nan=True)
            return True if ok else ('value', 'arrays differ')
        return True

    # ---------------------------------------------------------------- execution
    def execute(self, L, run):
        hooks = ArithHooks()
        it = Interp(L, run['world'], self.fns, hooks)
        reprs = [0]
        orig = it.step

        def step(i, ev):
            out = orig(i, ev)
            if ev.get('t', {}).get('repr') and out.ok:
                it.fault('repr_change')
            if ev.get('t', {}).get('dup'):
                it.fault('dup')
            return out

        it.step = step
        it.run_events = run['events']
        it.run(run['events'])
        extra = []
        # ---- C13.serial: every non-owner caller's results are what they are solo (numerically, as physical spectra)
        callers = callers_of(run['events'])
        if len(callers) > 1:
            it.fault('interleave')
            S = L.radiometry.Spectrum
            for c in callers:
                if c == 0:
                    continue
                solo = Interp(L, run['world'], self.fns, None)
                solo.run(solo_events(run['events'], c))
                it.probe('check:serial')
                # results whose comparison is not defined, and everything computed from them; a result its caller has
                # written into is the caller's own data from then on, not the operation's answer
                tainted = {e['target'].lstrip('@') for e in run['events'] if e.get('env') == 'perturb_attr'}
                for ev in run['events']:
                    if ev.get('c') != c or not ev.get('id'):
                        continue
                    verdict = self._serial_compare(L, it, solo, hooks, ev, tainted)
                    if verdict is None:
                        tainted.add(ev['id'])
                    elif verdict is not True:
                        extra.append(Violation('C13.serial', {'fn': ev['fn'], 'what': verdict[0]},
                                               'caller %d: result of %s differs from its solo run although only the representation of shared '
                                               'spectra changed in between: %s' % (c, ev['fn'], verdict[1])).to_json())
                        break
        states = set()
        for (i, c, fn, brief) in it.history:
            states.add('%s>%s' % (fn, brief.split(':')[0] if brief.startswith('ok') else brief))
        for p in it.probes:
            if p.startswith(('pair:', 'sampling:')) or p in ('disjoint_ranges', 'ambiguous_grid'):
                states.add(p)
        return self.result(it, extra, states)
