"""C09 -- FFT propagation agrees with DFT propagation; scratch space is transparent (DESIGN.md 7.3).

A "broadband exposure": a caller builds a pupil (monolithic or segmented, any parity) and
loops over 2..8 wavelengths in seeded order calling propagate_fft with ONE scratch buffer
reused across the loop (dirty at the start, stale from the previous -- larger or smaller --
grid afterwards; exact advertised size, oversize, or one short).
"""
import copy

import numpy as np

from ..core import Interp, Hooks, close, maxerr, dirty_fill
from .base import Scenario


def alloc(L, shape, dr=0, dc=0, fill='zeros', seed=0, layout='C'):
    """A caller's scratch buffer: its own array, Fortran-ordered, or a window of a larger work area (a non-contiguous view)."""
    shp = (int(shape[0]) + dr, int(shape[1]) + dc)
    if layout == 'F':
        a = np.zeros(shp, dtype=complex, order='F')
    elif layout == 'c64':
        a = np.zeros(shp, dtype=np.complex64)       # "complex ndarray": a single-precision work area is one
    elif layout == 'view':
        a = np.zeros((shp[0] + 3, shp[1] + 5), dtype=complex)[2:2 + shp[0], 1:1 + shp[1]]
    else:
        a = np.zeros(shp, dtype=complex)
    if fill != 'zeros':
        dirty_fill(a, fill, seed)
    return a


def parity(shape):
    p = {int(n) % 2 for n in shape}
    return 'mixed' if len(p) == 2 else ('odd' if 1 in p else 'even')


def check_fft_pair(L, w, rs, rn, du, oversample, scratch_rtol=None):
    """Compare FFT results (with / without scratch) with each other and with the DFT evaluated at the
    wavelength the FFT result reports.  Only public API is used."""
    out = {'premise': True}
    if not isinstance(rs, L.Wavefront) and not isinstance(rn, L.Wavefront):
        out['premise'] = False
        return out
    ref = rs if isinstance(rs, L.Wavefront) else rn
    out['grid'] = parity(ref.data[0].shape) if ref.data else 'none'
    out['pupil'] = parity(w.shape)
    out['nfields'] = len(w.data)
    du2 = np.broadcast_to(np.asarray(du, dtype=float), (2,)) / oversample
    w2 = L.Wavefront.empty(wavelength=ref.wavelength, pixelscale=tuple(w.pixelscale), focal_length=w.focal_length,
                           shape=w.shape, ptype=w.ptype)
    w2.data = list(w.data)
    rd = L.propagate_dft(w2, pixelscale=tuple(du2), shape=tuple(int(x) for x in ref.shape), oversample=1)
    fd = rd.field
    for name, r in (('scratch', rs), ('noscratch', rn)):
        if isinstance(r, L.Wavefront):
            f = r.field
            out['dft_' + name] = close(f, fd, rtol=(scratch_rtol or 1e-8) if name == 'scratch' else 1e-8)
            out['dft_' + name + '_err'] = maxerr(f, fd)
            out['meta_' + name] = (str(r.ptype) == ('image' if str(w.ptype) == 'pupil' else 'pupil')
                                   and np.allclose(np.asarray(r.pixelscale, dtype=float), du2, rtol=1e-12, atol=0)
                                   and r.focal_length == w.focal_length)
    if isinstance(rs, L.Wavefront) and isinstance(rn, L.Wavefront):
        out['scratch_same'] = (rs.wavelength == rn.wavelength) and close(rs.field, rn.field, rtol=scratch_rtol or 1e-10)
        out['scratch_err'] = maxerr(rs.field, rn.field)
    return out


class FftHooks(Hooks):
    prefix = 'C09'
    def __init__(self):
        self.snap = {}
        self.pre = None
        self.grids = {}

    def _snapshot(self, it):
        return {k: it.dig(v) for k, v in it.store.items()}

    def on_dirty(self, it, tid):
        self.snap[tid] = it.dig(it.store[tid])

    def before(self, it, i, ev):
        if not self.snap:
            self.snap = self._snapshot(it)

    def after(self, it, i, ev, out):
        fn = ev['fn']
        tag = ev.get('t', {})
        allowed = {x.lstrip('@') for x in ev.get('inplace', [])} if out.ok else set()
        new = self._snapshot(it)
        for k, d in new.items():
            old = self.snap.get(k)
            if old is None or old == d or k in allowed or k == ev.get('id'):
                continue
            if out.ok:
                it.probe('check:no_alias')
                it.violate('C09.no_alias', {'fn': fn, 'kind': type(it.store[k]).__name__},
                           '%s changed %s (store id %s): an earlier result or operand is not independent of the reused scratch buffer'
                           % (fn, type(it.store[k]).__name__, k), i)
            else:
                it.violate('C09.refuse', {'what': 'refusal-not-atomic', 'case': tag.get('case', '?')},
                           'refused %s changed %s (store id %s)' % (fn, type(it.store[k]).__name__, k), i)
        self.snap = new
        if fn == 'alloc' and out.ok and ev.get('k', {}).get('fill', 'zeros') != 'zeros':
            it.fault('dirty')
        if fn == 'propagate_fft':
            it.probe('check:no_alias')
            exp = tag.get('expect')
            case = tag.get('case', 'plain')
            if exp == 'refuse' and case in ('tilt', 'tilt-backward'):
                w = it.resolve(ev['a'][0])
                if not any(f.tilt for f in w.data):
                    exp = None          # premise: the wavefront really carries tilt metadata
                    it.probe('tilt_premise_failed')
                elif any(type(t).__name__ != 'Tilt' for f in w.data for t in f.tilt):
                    it.probe('refuse:tilt-not-angular')
            if case == 'coarse-quick-look':
                it.probe('coarse_quick_look_first')     # outside the supported regime: outcome not judged, purity is (snapshot above)
            if exp == 'refuse':
                it.fault('refuse')
                it.probe('check:refuse')
                it.probe('refuse:' + case)
                if out.ok:
                    it.violate('C09.refuse', {'what': 'not-refused', 'case': case},
                               'propagate_fft accepted a call it must refuse (%s)' % case, i)
            elif exp == 'ok':
                it.probe('check:accept')
                if isinstance(ev.get('k', {}).get('shape'), str):
                    it.probe('shape_in_caller_array')
                if tag.get('field_read_and_edited'):
                    it.probe('field_view_edited_before_propagation')
                if 'scratch' in ev.get('k', {}):
                    it.probe('scratch:' + tag.get('size', '?'))
                    if tag.get('nfields', 1) > 1:
                        it.probe('multifield_scratch')
                if not out.ok:
                    it.violate('C09.refuse', {'what': 'rejected', 'case': case, 'exc': type(out.exc).__name__},
                               'propagate_fft refused a call it must accept (%s): %r' % (case, out.exc), i)
                elif 'scratch' in ev.get('k', {}):
                    g = tuple(out.value.data[0].shape)
                    key = ev['k']['scratch']
                    prev = self.grids.get(key)
                    if prev is not None:
                        if g[0] * g[1] < prev[0] * prev[1]:
                            it.probe('grid_shrinks')
                        elif g[0] * g[1] > prev[0] * prev[1]:
                            it.probe('grid_grows')
                    self.grids[key] = g
        if fn == 'check.fft_pair' and out.ok and out.value.get('premise'):
            v = out.value
            sig_base = {'grid': v['grid'], 'pupil': v['pupil']}
            if tag.get('backward'):
                sig_base['direction'] = 'image-to-pupil'
                it.probe('backward_hop')
            if tag.get('c64') and 'scratch_same' in v:
                it.probe('single_precision_scratch')
            it.probe('grid:' + v['grid'])
            if v['pupil'] in ('odd', 'mixed') and v['grid'] in ('even', 'mixed'):
                it.probe('odd_pupil_even_grid')
            for name in ('scratch', 'noscratch'):
                if 'dft_' + name in v:
                    it.probe('check:fft_dft')
                    if not v['dft_' + name]:
                        it.violate('C09.fft_dft', dict(sig_base, path=name),
                                   'propagate_fft (%s path) differs from propagate_dft at the reported wavelength: max err %s'
                                   % (name, v['dft_' + name + '_err']), i)
                    it.probe('check:meta')
                    if not v['meta_' + name]:
                        it.violate('C09.meta', {'path': name}, 'result type / pixelscale / focal length not as documented', i)
            if 'scratch_same' in v:
                it.probe('check:scratch')
                if not v['scratch_same']:
                    it.violate('C09.scratch', sig_base, 'result with scratch differs from result without: max err %s' % v['scratch_err'], i)
        elif fn == 'check.fft_pair' and not out.ok:
            it.violate('C09.fft_dft', {'what': 'reference-dft-failed', 'exc': type(out.exc).__name__},
                       'the DFT reference could not be evaluated: %r' % (out.exc,), i)


class FftScenario(Scenario):
    name = 'fft'
    prop = 'C09'
    quick_runs = 1500
    thorough_runs = 60000
    audit_every = 8
    rule = ('each run = 1-2 callers each running a broadband loop of 2..8 wavelengths (seeded order, FFT grids of either parity, '
            'oversampling 1..3, scalar or commensurate per-axis pixel scales, monolithic or segmented pupils of either parity no larger '
            'than the grid) through propagate_fft with one scratch buffer reused across the loop, dirty (NaN/inf/garbage) at the start and '
            'stale afterwards, sized exactly as advertised / larger / one short, plus refused calls (oversize shape, tilt-carrying '
            'wavefront); further workload ingredients added by the seeded rounds are listed in MANIFEST.json and DESIGN.md section 15; distinct = distinct history digest; non-trivial = at least one fault (dirty, size, refuse, dup, cache) fired and at '
            'least one FFT-vs-DFT or scratch-vs-no-scratch comparison was made')
    state_measure = 'distinct (grid parity, pupil parity, #fields, scratch size class, oversample, shape given?) tuples'
    assumptions = ['pupils no larger than the FFT grid (the supported regime)',
                   '1/alpha is kept within 0.3 of an integer so the grid size is unambiguous (soundness rule 3)',
                   'per-axis pixel scales are generated commensurate with one propagation wavelength; otherwise FFT != DFT by construction',
                   'the DFT reference is the real propagate_dft (an error common to both propagators is C01/C02 territory)']
    must_hit = ['grid:odd', 'grid:even', 'odd_pupil_even_grid', 'multifield_scratch', 'scratch:exact', 'scratch:larger',
                'grid_shrinks', 'grid_grows', 'refuse:short-scratch', 'refuse:tilt', 'refuse:big-shape', 'refuse:tilt-not-angular', 'shape_in_caller_array', 'field_view_edited_before_propagation', 'coarse_quick_look_first', 'refuse:tilt-backward', 'backward_hop', 'single_precision_scratch']
    probe_names = must_hit + ['grid:mixed', 'coldwarm_audit']

    def make_fns(self):
        fns = dict(self.fns)
        fns['alloc'] = alloc
        fns['check.fft_pair'] = check_fft_pair
        return fns

    # ---------------------------------------------------------------- generation helpers
    def loop_events(self, rng, world, c, force=None):
        """One caller's broadband loop.  `force` pins choices for the directed prelude."""
        force = force or {}
        pre = 'c%d_' % c
        cnt = [0]

        def nid(tag):
            cnt[0] += 1
            return '%s%s%d' % (pre, tag, cnt[0])

        def E(fn, a=None, k=None, id=None, **extra):
            e = {'c': c, 'fn': fn}
            if a is not None:
                e['a'] = a
            if k is not None:
                e['k'] = k
            e['id'] = id or nid('r')
            e.update(extra)
            return e

        def sd():
            return rng.randrange(10 ** 6)

        ev = []
        S = force.get('S') or [rng.randint(2, 11), rng.randint(2, 11)]
        sname = pre + 'S'
        world['shapes'][sname] = list(S)
        os_ = force.get('os') or rng.choice([1, 1, 2, 3])
        f = rng.choice([0.5, 1.0, 2.0])
        dx = rng.choice([1e-3, 2.5e-3, 4e-3])
        peraxis = force.get('peraxis', rng.random() < 0.25)
        nwl = force.get('nwl') or rng.randint(2, 8 * self.depth)
        d0 = 5e-6
        # FFT grid (rows, cols) per wavelength; lambda = (Nr + delta) * dx*du0/(f*os)
        if peraxis:
            num, den = rng.choice([(1, 2), (2, 1), (2, 3), (3, 2)])
            qmin = int(np.ceil(max(S[0] / den, S[1] / num)))
            grids = [((qmin + rng.randint(0, 4)) * den, None) for _ in range(nwl)]
            grids = [(nr, nr * num // den) for nr, _ in grids]
            du = [d0, d0 * den / num]          # Nr*du0 == Nc*du1: both axes commensurate with one wavelength
        else:
            num = den = 1
            if 'grids' in force:
                grids = [(g, g) for g in force['grids']]
            else:
                grids = [(g, g) for g in (max(S) + rng.randint(0, 12) for _ in range(nwl))]
            du = d0
        lam = []
        for nr, nc in grids:
            delta = rng.uniform(-0.3, 0.3) if not peraxis else rng.uniform(-0.1, 0.1)
            lam.append((nr + delta) * dx * d0 / (f * os_))
        # pupil
        seg = force.get('seg', rng.random() < 0.35)
        a = nid('a')
        o = nid('o')
        m = nid('m')
        rad = min(S) / 2.0 + rng.choice([-0.4, 0.1, 0.6])
        ev.append({'c': c, 'fn': 'array', 'id': a, 'recipe': {'kind': 'uniform', 'shape': sname, 'lo': 0.3, 'hi': 1.0, 'seed': sd()}})
        ev.append({'c': c, 'fn': 'array', 'id': o, 'recipe': {'kind': 'normal', 'shape': sname, 'sigma': 4e-8, 'seed': sd()}})
        if seg:
            ev.append({'c': c, 'fn': 'array', 'id': m, 'recipe': {'kind': 'segments', 'shape': sname, 'k': rng.randint(2, 4),
                                                                 'support': rng.choice(['disk', 'full']), 'radius': rad,
                                                                 'dr': rng.choice([0, 0, 1]), 'seed': sd()}})
        else:
            ev.append({'c': c, 'fn': 'array', 'id': m, 'recipe': {'kind': rng.choice(['disk', 'blob', 'rect']), 'shape': sname, 'radius': rad,
                                                                 'half': [max(0, S[0] // 2 - 1), max(0, S[1] // 2 - 1)],
                                                                 'dr': rng.choice([0, 0, 1]), 'dc': rng.choice([0, 0, -1]), 'seed': sd()}})
        p = nid('p')
        ev.append(E('Pupil', None, {'amplitude': '@' + a, 'opd': '@' + o, 'mask': '@' + m, 'pixelscale': dx, 'focal_length': f}, id=p))
        nfields = 2 if seg else 1
        # scratch
        mode = force.get('scratch') or rng.choice(['exact', 'exact', 'larger', 'larger', 'none'])
        sc = None
        if mode != 'none':
            ss = nid('ss')
            ev.append(E('scratch_shape', None, {'wavelength': lam, 'dx': dx, 'du': du, 'z': f, 'oversample': os_}, id=ss))
            sc = nid('sc')
            extra = (0, 0) if mode == 'exact' else (rng.randint(1, 4), rng.randint(0, 4))
            sc_layout = force.get('layout') or rng.choice(['C', 'C', 'F', 'view', 'c64'])
            ev.append(E('alloc', ['@' + ss], {'dr': extra[0], 'dc': extra[1], 'layout': sc_layout,
                                             'fill': force.get('fill') or rng.choice(['zeros', 'nan', 'inf', 'garbage', 'big']), 'seed': sd()}, id=sc))
            short = nid('sh')
            ev.append(E('alloc', ['@' + ss], {'dr': rng.choice([-1, 0]), 'dc': -1, 'fill': 'garbage', 'seed': sd()}, id=short))
        order = list(range(len(lam)))
        if 'grids' not in force:
            rng.shuffle(order)
        lam_max_i = max(range(len(lam)), key=lambda i: lam[i])
        for n, i in enumerate(order):
            w0 = nid('w')
            ev.append(E('Wavefront', [lam[i]], id=w0))
            w1 = nid('w')
            ev.append(E(rng.choice(['Plane.multiply', 'w*p']), ['@' + p, '@' + w0], id=w1))
            if ev[-1]['fn'] == 'w*p':
                ev[-1]['a'] = ['@' + w0, '@' + p]
            gr, gc = grids[i]
            k = {'pixelscale': du, 'oversample': os_}
            if rng.random() < 0.5 and gr // os_ >= 2 and gc // os_ >= 2:
                # (a 1x1 output is a one-element field, which lentil treats as a broadcastable scalar: not generated)
                k['shape'] = [rng.randint(2, gr // os_), rng.randint(2, gc // os_)]
                if rng.random() < 0.5 or force:
                    # the caller keeps its output shape in an integer ndarray of its own and passes the same array to every call
                    shp = nid('shp')
                    ev.append({'c': c, 'fn': 'array', 'id': shp, 'recipe': {'kind': 'list', 'values': k['shape'], 'dtype': 'int64'}})
                    k['shape'] = '@' + shp
            if rng.random() < 0.3 or force:
                dua = nid('du')
                ev.append({'c': c, 'fn': 'array', 'id': dua, 'recipe': {'kind': 'list', 'values': list(du) if isinstance(du, (list, tuple)) else [du, du]}})
                k['pixelscale'] = '@' + dua
            if rng.random() < 0.15 or force:
                # a quick look on a much coarser detector first (FFT grid smaller than the pupil: outside the supported regime, any outcome):
                # the wavefront it was given is what it was afterwards, and the judged calls below are unaffected
                ev.append(E('propagate_fft', ['@' + w1], {'pixelscale': (du if isinstance(du, float) else du[0]) * rng.choice([4, 6]), 'oversample': 1},
                            t={'case': 'coarse-quick-look'}))
            rs = rn = None
            tag = {'expect': 'ok', 'case': 'plain', 'nfields': nfields}
            if sc is not None:
                ks = dict(k, scratch='@' + sc)
                rs = nid('R')
                ev.append(E('propagate_fft', ['@' + w1], ks, id=rs, inplace=['@' + sc],
                            t=dict(tag, size=mode, case=('exact-scratch' if mode == 'exact' else 'larger-scratch'))))
            if rng.random() < 0.2 or force:
                # the caller looks at the pupil-plane field and scribbles into the array it was handed (normalise, threshold) before
                # propagating: the array is the caller's, the wavefront is what it was
                fv = nid('fv')
                ev.append(E('attr', ['@' + w1, 'field'], id=fv))
                ev.append({'env': 'perturb', 'c': c, 'target': '@' + fv, 'seed': sd()})
                tag = dict(tag, field_read_and_edited=True)
            if sc is None or rng.random() < 0.7 or force:
                rn = nid('R')
                ev.append(E('propagate_fft', ['@' + w1], dict(k), id=rn, t=dict(tag)))
            ev.append(E('check.fft_pair', ['@' + w1, '@' + rs if rs else None, '@' + rn if rn else None, du, os_],
                        # (what went through a single-precision work area is compared at single precision)
                        {'scratch_rtol': 2e-5} if (sc is not None and sc_layout == 'c64') else None, t={'c64': sc is not None and sc_layout == 'c64'}))
            if rn is not None and 'shape' not in k and not peraxis and isinstance(dx, float) and (rng.random() < 0.3 or force):
                # ... and back: the image-plane result (the whole grid) sent to a pupil plane sampled like the entrance pupil, with and
                # without the shared scratch buffer -- judged like any other hop, against the DFT of the very same input
                kb = {'pixelscale': dx, 'oversample': 1}
                if rng.random() < 0.5:
                    kb['shape'] = [max(2, min(gr, S[0] + rng.randint(0, 3))), max(2, min(gc, S[1] + rng.randint(0, 3)))]
                rb = nid('R')
                ev.append(E('propagate_fft', ['@' + rn], dict(kb), id=rb, t={'expect': 'ok', 'case': 'backward', 'nfields': 1}))
                rbs = None
                if sc is not None and i == lam_max_i and rng.random() < 0.6:
                    rbs = nid('R')
                    ev.append(E('propagate_fft', ['@' + rn], dict(kb, scratch='@' + sc), id=rbs, inplace=['@' + sc],
                                t={'expect': 'ok', 'case': 'backward', 'nfields': 1, 'size': 'larger'}))
                ev.append(E('check.fft_pair', ['@' + rn, '@' + rbs if rbs else None, '@' + rb, dx, 1],
                            {'scratch_rtol': 2e-5} if (rbs and sc_layout == 'c64') else None, t={'backward': True}))
            os2 = os_ % 3 + 1
            g2 = lam[i] * f * os2 / (dx * d0)
            fits = abs(g2 - round(g2)) <= 0.3 and round(g2) >= max(S)      # supported regime, unambiguous grid
            if (rng.random() < 0.25 or force) and not peraxis and fits:
                # same pupil, same wavelength, same pixels -- another oversampling factor, in the same process (history)
                k2 = {'pixelscale': du, 'oversample': os2}
                r2 = nid('R')
                ev.append(E('propagate_fft', ['@' + w1], k2, id=r2, t={'expect': 'ok', 'case': 'other-oversample', 'nfields': nfields}))
                ev.append(E('check.fft_pair', ['@' + w1, None, '@' + r2, du, os2]))
            # refused calls placed inside the loop (fault F5)
            r = rng.random()
            if force.get('refusals') or r < 0.45:
                which = force.get('refusals') or [rng.choice(['short-scratch', 'tilt', 'big-shape'])]
                for case in which:
                    if case == 'short-scratch' and sc is not None and i == lam_max_i:
                        ev.append(E('propagate_fft', ['@' + w1], dict(k, scratch='@' + short), t={'expect': 'refuse', 'case': case}))
                    elif case == 'big-shape':
                        which_ax = rng.choice(['rows', 'cols', 'cols', 'both'])
                        kb = dict(k, shape=[gr // os_ + rng.randint(1, 3) if which_ax in ('rows', 'both') else max(1, gr // os_ - rng.randint(0, 2)),
                                            gc // os_ + rng.randint(1, 3) if which_ax in ('cols', 'both') else max(1, gc // os_ - rng.randint(0, 2))])
                        if sc is not None:
                            kb['scratch'] = '@' + sc
                        if rng.random() < 0.5:
                            shb = nid('shp')
                            ev.append({'c': c, 'fn': 'array', 'id': shb, 'recipe': {'kind': 'list', 'values': kb['shape'], 'dtype': 'int64'}})
                            kb['shape'] = '@' + shb
                        ev.append(E('propagate_fft', ['@' + w1], kb, t={'expect': 'refuse', 'case': case}))
                    elif case == 'tilt':
                        how = force.get('tilt_how') or rng.choice(['Tilt', 'wavefront', 'fit', 'Dispersive', 'Dispersive', 'Grism'])
                        wt = nid('w')
                        if how in ('Dispersive', 'Grism'):
                            # tilt metadata that is not an angular Tilt object: every tilt-interface plane displaces the image
                            tl = nid('t')
                            tr = rng.choice([[0.5, 0.0], [-1.2, 1e-6], [2.0, 0.3, 0.0]])
                            ev.append(E('DispersiveTilt' if how == 'Dispersive' else 'Grism', None,
                                        {'trace': tr, 'dispersion': [rng.choice([1e-3, -2e-3]), lam[i] - rng.choice([2e-8, -3e-8])]}, id=tl))
                            ev.append(E(rng.choice(['Plane.multiply', 'p*w']), ['@' + tl, '@' + w1], id=wt))
                        elif how == 'Tilt':
                            tl = nid('t')
                            ev.append(E('Tilt', None, {'x': 1e-6, 'y': -2e-6}, id=tl))
                            ev.append(E('Plane.multiply', ['@' + tl, '@' + w1], id=wt))
                        elif how == 'wavefront':
                            w0t = nid('w')
                            ev.append(E('Wavefront', [lam[i]], {'tilt': [1e-6, 2e-6]}, id=w0t))
                            ev.append(E('Plane.multiply', ['@' + p, '@' + w0t], id=wt))
                        else:
                            q = nid('q')
                            ev.append(E('Plane.fit_tilt', ['@' + p], id=q))
                            ev.append(E('Plane.multiply', ['@' + q, '@' + w0], id=wt))
                        kt = dict(k)
                        if sc is not None:
                            kt['scratch'] = '@' + sc
                        if rng.random() < 0.5 or force:
                            # the caller looks at the tilted wavefront first (its views are reads: the tilt it carries is still there)
                            ev.append(E('attr', ['@' + wt, rng.choice(['field', 'intensity'])], t={'views_read_before_refusal': True}))
                        ev.append(E('propagate_fft', ['@' + wt], kt, t={'expect': 'refuse', 'case': 'tilt'}))
                        if rn is not None and rng.random() < 0.5 and not peraxis:
                            # ... and in the other direction: the image-plane result, given tilt, is not propagated back without it
                            tb, wtb = nid('t'), nid('w')
                            ev.append(E('Tilt', None, {'x': 2e-6, 'y': 1e-6}, id=tb))
                            ev.append(E('Plane.multiply', ['@' + tb, '@' + rn], id=wtb))
                            ev.append(E('propagate_fft', ['@' + wtb], {'pixelscale': dx, 'oversample': 1}, t={'expect': 'refuse', 'case': 'tilt-backward'}))
        return ev

    def generate(self, rng):
        world = {'shapes': {}, 'cache': rng.choice([32, 32, 0, 1, 2]), 'rng_seed': rng.randrange(2 ** 31)}
        K = rng.choice([1, 1, 2])
        world['K'] = K
        progs = [self.loop_events(rng, world, c) for c in range(K)]
        events = self.interleave(rng, progs)
        return {'scenario': self.name, 'world': world, 'events': events}

    @staticmethod
    def interleave(rng, progs):
        out = []
        pos = [0] * len(progs)
        while True:
            runnable = [c for c in range(len(progs)) if pos[c] < len(progs[c])]
            if not runnable:
                break
            if rng.random() < 0.05:
                out.append(rng.choice([{'env': 'cache_clear'}, {'env': 'cache', 'maxsize': rng.choice([0, 1, 2, 32])}]))
                continue
            c = rng.choice(runnable)
            ev = progs[c][pos[c]]
            out.append(ev)
            pos[c] += 1
            if ev.get('fn') == 'propagate_fft' and ev.get('t', {}).get('expect') == 'ok' and rng.random() < 0.1:
                d = copy.deepcopy(ev)          # F6: the same propagation issued again (scratch now stale from itself)
                d['id'] = d['id'] + 'd'
                out.append(d)
                if 'scratch' in d.get('k', {}) and rng.random() < 0.5:
                    out.append({'env': 'dirty', 'target': d['k']['scratch'], 'fill': rng.choice(['nan', 'garbage', 'inf']),
                                'seed': rng.randrange(10 ** 6)})
        return out

    def prelude(self, verif_seed):
        import random
        runs = []
        cases = [
            {'S': [3, 5], 'os': 1, 'grids': [8, 12, 6, 9, 13], 'scratch': 'exact', 'fill': 'nan', 'seg': False, 'peraxis': False,
             'refusals': ['short-scratch', 'tilt', 'big-shape'], 'tilt_how': 'Dispersive'},
            {'S': [4, 7], 'os': 2, 'grids': [9, 14, 7, 11], 'scratch': 'larger', 'fill': 'garbage', 'seg': True, 'peraxis': False,
             'refusals': ['short-scratch', 'tilt', 'big-shape']},
            {'S': [5, 5], 'os': 1, 'grids': [7, 9, 6], 'scratch': 'exact', 'fill': 'inf', 'seg': True, 'peraxis': False,
             'refusals': ['big-shape']},
        ]
        for j, force in enumerate(cases):
            rng = random.Random(verif_seed * 15485863 + j)
            world = {'shapes': {}, 'cache': 32, 'rng_seed': 1, 'K': 1}
            events = self.loop_events(rng, world, 0, force=force)
            runs.append({'scenario': self.name, 'world': world, 'events': events, 'run_index': -100 + j, 'seed': 0})
        return runs

    # ---------------------------------------------------------------- execution
    def execute(self, L, run):
        it = Interp(L, run['world'], self.make_fns(), FftHooks())
        it.run(run['events'])
        states = set()
        for ev in run['events']:
            if ev.get('fn') == 'propagate_fft':
                k = ev.get('k', {})
                states.add('os%s|shape%s|scr%s|%s' % (k.get('oversample'), 'shape' in k, ev.get('t', {}).get('size', 'none'),
                                                      ev.get('t', {}).get('case')))
        for p in it.probes:
            if p.startswith('grid:') or p in ('odd_pupil_even_grid', 'multifield_scratch'):
                states.add(p)
        if len({e.get('c') for e in run['events'] if 'c' in e}) > 1:
            it.fault('interleave')
        for ev in run['events']:
            t = ev.get('t', {})
            if ev.get('fn') == 'propagate_fft' and 'scratch' in ev.get('k', {}):
                it.faults.setdefault('size', 0)
        n_sized = sum(1 for (i, c, fn, b) in it.history if fn == 'propagate_fft')
        if it.probes.get('scratch:exact') or it.probes.get('scratch:larger'):
            it.fault('size', it.probes.get('scratch:exact', 0) + it.probes.get('scratch:larger', 0))
        if it.probes.get('grid_shrinks') or it.probes.get('grid_grows'):
            it.fault('stale', it.probes.get('grid_shrinks', 0) + it.probes.get('grid_grows', 0))
        return self.result(it, (), states)

    def simplify(self, run):
        for r in super().simplify(run):
            yield r
