"""Scenario registry: property id -> scenario."""
from ..core import HarnessError

_BY_PROP = {
    'C04': ('optics', 'TiltScenario'),
    'C07': ('optics', 'ViewsScenario'),
    'C08': ('ptype', 'PtypeScenario'),
    'C09': ('fft', 'FftScenario'),
    'C10': ('purity', 'PurityScenario'),
    'C13': ('spectrum_arith', 'SpectrumArithScenario'),
    'C18': ('stochastic', 'StochasticScenario'),
    'C15': ('spectrum_edit', 'SpectrumEditScenario'),
}
_CACHE = {}


def get(name, prop):
    key = (name, prop)
    if key in _CACHE:
        return _CACHE[key]
    if prop not in _BY_PROP:
        raise HarnessError('no scenario registered for property %s' % prop)
    mod, cls = _BY_PROP[prop]
    import importlib
    m = importlib.import_module('lsim.scenarios.' + mod)
    scn = getattr(m, cls)()
    scn.prop = prop
    _CACHE[key] = scn
    return scn


def properties():
    return sorted(_BY_PROP)
