"""C10 -- calls are pure: no hidden mutation, no dependence on call history (DESIGN.md 7.2).

K callers run pipeline fragments over a *shared* pool of caller-owned arrays, planes,
spectra and wavefronts plus private objects for the documented in-place calls.  The seeded
scheduler interleaves them with cache-size changes, cache clears, global-RNG draws/reseeds,
duplicate calls and (in frozen runs) read-only caller arrays.
"""
import copy

import numpy as np

from ..core import Interp, Hooks, Violation, close, maxerr, Digester, HarnessError
from .. import public, fresh
from ..models import dense
from .base import Scenario, solo_events, callers_of
from . import autocalls

UNSEEDED = ('cosmic_rays',)


def _rng_state():
    s = np.random.get_state()
    return (s[1].tobytes(), s[2], s[3], s[4])


class PurityHooks(Hooks):
    prefix = 'C10'
    def __init__(self, frozen_ids=()):
        self.snap = {}
        self.rng0 = None
        self.first_brief = {}
        self.skip_serial = set()
        self.frozen_ids = set(frozen_ids)

    # ---- snapshots
    def _snapshot(self, it):
        return {k: it.dig(v) for k, v in it.store.items()}

    def before(self, it, i, ev):
        if not self.snap:
            self.snap = self._snapshot(it)
        self.pending_fresh = fresh.describe_call(it, ev) if ev.get('t', {}).get('fresh') else None
        self.rng0 = _rng_state()

    def _judge_fresh(self, it, i, ev, out):
        """C10.fresh: the same call on public-state clones of its arguments, in a process that has executed nothing else."""
        pending, self.pending_fresh = self.pending_fresh, None
        fresh.judge(it, i, ev, out, pending, 'C10.fresh', {'fn': ev['fn']})

    def on_drop(self, it, ids):
        for k in ids:
            self.snap.pop(k, None)

    def on_dirty(self, it, tid):
        # the caller wrote into an array it owns: everything that views that array legitimately shows the new content
        self.snap = self._snapshot(it)

    def after(self, it, i, ev, out):
        fn = ev['fn']
        tag = ev.get('t', {})
        allowed = {x.lstrip('@') for x in ev.get('inplace', [])}
        if not out.ok and tag.get('expect') == 'refuse':
            allowed = set()         # a refused call -- even on a documented in-place target -- leaves everything as it was
            it.fault('refuse')
            it.probe('refused_inplace_call')
        new = self._snapshot(it)
        it.probe('check:snapshot')
        it.probe('fn:' + fn)
        roles = self._roles(ev)
        closure = None
        for k, d in new.items():
            old = self.snap.get(k)
            if old is None or old == d or k in allowed or k == ev.get('id'):
                continue
            if allowed and k.startswith('c%d_' % ev.get('c', -9)):
                # the documented target, the private caller arrays it aliases, and other names the caller holds for them.
                # Shared entries (and other callers' entries) are never legitimate aliases of a private in-place target.
                if closure is None:
                    closure = self._closure(it, allowed)
                if self._aliases(it, it.store[k], closure):
                    continue
            role = roles.get(k, 'not-an-argument')
            it.violate('C10.snapshot', {'fn': fn, 'arg': role, 'kind': type(it.store[k]).__name__},
                       '%s changed caller-owned %s (%s, store id %s) although the call is not documented as in-place on it'
                       % (fn, type(it.store[k]).__name__, role, k), i)
        self.snap = new
        if out.policy_changed:
            # process-wide state is shared by every caller: a call that leaves it changed makes later, unrelated calls answer differently
            it.violate('C10.snapshot', {'fn': fn, 'arg': 'process-wide:' + out.policy_changed.replace(' ', '-'), 'kind': 'global'},
                       '%s left the process-wide %s changed (%s)' % (fn, out.policy_changed, 'call refused' if not out.ok else 'call succeeded'), i)
        if getattr(self, 'pending_fresh', None) is not None:
            self._judge_fresh(it, i, ev, out)
        # seeded / deterministic calls never touch the global random state
        if (fn not in UNSEEDED or 'seed' in ev.get('k', {})) and not tag.get('unseeded'):
            it.probe('check:rng')
            if _rng_state() != self.rng0:
                it.violate('C10.rng', {'fn': fn}, '%s advanced or replaced the global numpy random state' % fn, i)
        # frozen caller arrays: a write error counts only if the write would have changed bytes
        if not out.ok and 'read-only' in str(out.exc):
            it.probe('frozen_write_attempt')
            self._judge_frozen(it, i, ev, out)
        # repeat = first
        if ev.get('id'):
            b = out.brief(it.dig)
            if tag.get('dup_of') is not None and tag.get('dup_of'):
                it.probe('check:repeat')
                it.fault('dup')
                first = self.first_brief.get(tag['dup_of'])
                if first is not None and first != b and i not in self.skip_serial:
                    it.violate('C10.repeat', {'fn': fn}, 'repeating %s on unchanged arguments gave %s, first call gave %s'
                               % (fn, b, first), i)
            else:
                self.first_brief[ev['id']] = b
        if tag.get('variant') is not None:
            it.probe('one_argument_variant')

    @staticmethod
    def _arrays_of(it, obj):
        L = it.L
        if isinstance(obj, np.ndarray):
            return [obj]
        if isinstance(obj, L.Plane):
            return [a for a in (obj.amplitude, obj.opd, obj.mask) if isinstance(a, np.ndarray)]
        if isinstance(obj, L.Wavefront):
            return [f.data for f in obj.data]
        if isinstance(obj, L.radiometry.Spectrum):
            return [a for a in (obj.wave, obj.value) if isinstance(a, np.ndarray)]
        return []

    def _closure(self, it, allowed):
        objs = set()
        arrays = []
        for k in allowed:
            o = it.store.get(k)
            if o is None:
                continue
            objs.add(id(o))
            arrays += self._arrays_of(it, o)
        return objs, arrays

    def _aliases(self, it, obj, closure):
        objs, arrays = closure
        if id(obj) in objs:
            return True
        for a in self._arrays_of(it, obj):
            for b in arrays:
                if a is b or np.may_share_memory(a, b):
                    return True
        return False

    @staticmethod
    def _roles(ev):
        roles = {}
        for n, a in enumerate(ev.get('a', [])):
            if isinstance(a, str) and a.startswith('@'):
                roles.setdefault(a[1:], 'arg%d' % n)
            elif isinstance(a, list):
                for x in a:
                    if isinstance(x, str) and x.startswith('@'):
                        roles.setdefault(x[1:], 'arg%d[]' % n)
        for k, a in ev.get('k', {}).items():
            if isinstance(a, str) and a.startswith('@'):
                roles.setdefault(a[1:], k)
        return roles

    def _judge_frozen(self, it, i, ev, out):
        """Re-issue the refused call on thawed deep copies: did it really want to change bytes?"""
        fn = ev['fn']
        try:
            args = copy.deepcopy([it.resolve(x) for x in ev.get('a', [])])
            kw = copy.deepcopy({k: it.resolve(x) for k, x in ev.get('k', {}).items()})
            before = [it.dig(x) for x in args] + [it.dig(kw[k]) for k in sorted(kw)]
            state = np.random.get_state()
            import warnings
            try:
                with np.errstate(all='ignore'), warnings.catch_warnings():
                    warnings.simplefilter('ignore')
                    it.fns[fn](it.L, *args, **kw)
            except Exception:
                pass
            np.random.set_state(state)
            after = [it.dig(x) for x in args] + [it.dig(kw[k]) for k in sorted(kw)]
        except Exception:
            return
        self.skip_serial.add(i)
        allowed = {x.lstrip('@') for x in ev.get('inplace', [])}
        if before != after and not allowed:
            it.probe('check:freeze')
            it.violate('C10.freeze', {'fn': fn}, '%s writes into a read-only caller array (and changes its bytes when allowed to)' % fn, i)
        else:
            it.probe('frozen_benign_write')


def effective_optics(L, p):
    """(amplitude*mask, mask, OPD + ramps of the recorded tilts) per segment, from public state."""
    mask = np.asarray(p.mask, dtype=float)
    segs = [mask] if mask.ndim == 2 else list(mask)
    shape = segs[0].shape
    amp = np.broadcast_to(np.asarray(p.amplitude, dtype=float), shape)
    opd = np.broadcast_to(np.asarray(p.opd, dtype=float), shape)
    out = []
    for n, m in enumerate(segs):
        eff = opd.copy()
        for t in list(p.tilt)[n::len(segs)]:
            sx, sy = t.shift(xs=0, ys=0, z=1.0, wavelength=1e-6)
            # Tilt(x, y).shift(z=1) == (-y, -x)
            eff = eff + dense.ramp(shape, -sy, -sx, p.pixelscale)
        out.append((amp * m, m, eff * m))
    return out


def check_same_image(L, wa, wb, pa=None, pb=None):
    """Harness-side comparison used by C10.path: two planes with the same effective optics
    (premise, checked from their public state) image identically on every sample both
    propagations evaluate.  -> {'premise', 'ok', 'detail'}"""
    res = {'premise': True, 'ok': True, 'detail': ''}
    if pa is not None and pb is not None:
        ea, eb = effective_optics(L, pa), effective_optics(L, pb)
        if len(ea) != len(eb):
            res['premise'] = False
        else:
            for (aa, ma, oa), (ab, mb, ob) in zip(ea, eb):
                if not (np.array_equal(ma, mb) and np.allclose(aa, ab, rtol=1e-12, atol=0)
                        and np.max(np.abs(oa - ob)) <= 1e-7 * max(np.max(np.abs(ob)), 1e-30)):
                    res['premise'] = False
    fa, alla, _ = dense.coverage(wa)
    fb, allb, _ = dense.coverage(wb)
    if fa.shape != fb.shape:
        res['premise'] = False
        return res
    common = alla & allb
    if not common.any():
        res['detail'] = 'no common samples'
        return res
    ref = np.max(np.abs(fb[common]))
    err = np.max(np.abs(fa[common] - fb[common]))
    res['ok'] = bool(err <= 1e-7 * max(ref, 1e-300))
    res['detail'] = 'max |diff| %.3g on %d common samples (ref %.3g)' % (err, common.sum(), ref)
    return res


class PurityScenario(Scenario):
    name = 'purity'
    prop = 'C10'
    uses_fresh = True
    quick_runs = 600
    thorough_runs = 30000
    audit_every = 1
    rule = ('each run = K in 2..4 simulated callers running pipeline fragments (optics, FFT with scratch, tilt fitting, '
            'DFTs with repeated shapes, Zernike, array utilities, shapes, detector chain, seeded noise models, spectra, a reused dispersive '
            'element, in-place edits of derived objects, attribute-update paths, invalid calls) and calls generated from a type-aware '
            'catalogue of the whole public surface (optional arguments, dtypes, layouts, containers varied) over a '
            'shared pool of caller-owned arrays/planes/spectra, interleaved by the seeded scheduler with cache-size changes and '
            'clears, global-RNG draws and reseeds, duplicate calls and (1 run in 4) read-only caller arrays; further workload ingredients '
            'added by the seeded rounds are listed in MANIFEST.json and DESIGN.md section 15; distinct = distinct '
            'history digest; non-trivial = at least one fault fired and at least one oracle comparison was made')
    state_measure = 'distinct public-API entry points x outcome class reached (fn>ok / fn>ExceptionName)'
    assumptions = ['shared objects are used only through calls not documented as in-place; documented in-place calls '
                   '(fit_tilt(inplace=True), Wavefront.insert, out=, scratch=, Spectrum.to/resample/crop/trim/pad/append, attribute '
                   'assignment) are issued only on a caller\'s private objects and may change those objects and the caller arrays they alias',
                   'a pure call that fails the same way every time is consistent (outcomes include the exception class)',
                   'cosmic_rays and smear(angle=None) are unseeded consumers of the global RNG by design: cosmic_rays is judged under C18, smear is always given its angle here; either of them, when handed a seed= keyword, is held to the seeded-function clause',
                   'bitwise result equality is demanded between repeats and between solo and interleaved executions in one process '
                   '(single-threaded BLAS); the determinism self-test re-validates this']

    must_hit = ['cache_eviction', 'shared_dft_shape', 'seeded_after_rng_fault', 'frozen_run', 'coldwarm_audit',
                'fn:Plane.multiply', 'fn:propagate_dft', 'fn:propagate_fft', 'fn:Plane.fit_tilt', 'fn:dft2', 'fn:adc',
                'fn:shot_noise', 'fn:s*', 'fn:collect_charge', 'fn:Wavefront.insert', 'path_pair', 'refused_inplace_call', 'used_vs_fresh',
                'fn:Tilt.shift', 'one_argument_variant', 'fn:Plane.rescale', 'fn:spider', 'fn:call', 'fn:callm']
    probe_names = must_hit + ['frozen_write_attempt', 'frozen_benign_write']

    # ---------------------------------------------------------------- world + shared pool
    def base_world(self, rng):
        wl = rng.choice([500e-9, 650e-9, 1e-6])
        du = rng.choice([5e-6, 4e-6])
        f = rng.choice([0.5, 1.0, 2.0])
        n0 = rng.choice([12, 16, 20])
        dx = wl * f / (du * n0)
        s0 = [rng.randint(4, 10), rng.randint(4, 10)]
        sq = rng.randint(2, 5) * 2
        return {'shapes': {'S0': s0, 'S1': [rng.randint(3, 9), rng.randint(3, 9)], 'SQ': [sq, sq],
                           'CUBE': [3, sq, sq], 'G1': [3], 'G3': [2, sq, sq]},
                'cache': rng.choice([32, 0, 1, 2]), 'rng_seed': rng.randrange(2 ** 31),
                'phys': {'wl': wl, 'du': du, 'f': f, 'dx': dx, 'n0': n0}}

    def setup_events(self, world, rng):
        ph = world['phys']
        ev = []

        def add(fn, id, a=None, k=None, **extra):
            e = {'c': -1, 'fn': fn, 'id': id}
            if a is not None:
                e['a'] = a
            if k is not None:
                e['k'] = k
            e.update(extra)
            ev.append(e)

        def sd():
            return rng.randrange(10 ** 6)

        lay = lambda: rng.choice(['C', 'C', 'F', 'strided'])
        rad = min(world['shapes']['S0']) / 2.0 - 0.3
        add('array', 'A', recipe={'kind': 'uniform', 'shape': 'S0', 'lo': 0.5, 'hi': 1.0, 'seed': sd(), 'layout': lay()})
        add('array', 'O', recipe={'kind': 'add', 'x': {'kind': 'normal', 'shape': 'S0', 'sigma': 2e-8, 'seed': sd()},
                                  'y': {'kind': 'ramp', 'shape': 'S0', 'a': rng.uniform(-3e-8, 3e-8), 'b': rng.uniform(-3e-8, 3e-8)}})
        add('array', 'B', recipe={'kind': 'add', 'x': {'kind': 'normal', 'shape': 'S0', 'sigma': 1e-8, 'seed': sd()},
                                  'y': {'kind': 'ramp', 'shape': 'S0', 'a': rng.uniform(-3e-8, 3e-8), 'b': rng.uniform(-3e-8, 3e-8)}})
        add('array', 'M', recipe={'kind': rng.choice(['disk_aa', 'disk_aa', 'disk']), 'shape': 'S0', 'radius': rad, 'layout': lay()})
        add('array', 'MB', recipe={'kind': 'disk', 'shape': 'S0', 'radius': rad})
        add('array', 'MS', recipe={'kind': 'segments', 'shape': 'S0', 'k': rng.randint(2, 3), 'support': 'disk', 'radius': rad, 'seed': sd()})
        add('array', 'CX', recipe={'kind': 'complex', 'shape': 'S0', 'seed': sd()})
        add('array', 'IMG', recipe={'kind': 'uniform', 'shape': 'S1', 'lo': 0.0, 'hi': 200.0, 'seed': sd(), 'layout': lay()})
        add('array', 'ISQ', recipe={'kind': 'uniform', 'shape': 'SQ', 'lo': 0.0, 'hi': 5000.0, 'seed': sd()})
        add('array', 'CUBE', recipe={'kind': 'uniform', 'shape': 'CUBE', 'lo': 0.0, 'hi': 50.0, 'seed': sd()})
        add('array', 'QEV', recipe={'kind': 'uniform', 'shape': 'G1', 'lo': 0.1, 'hi': 0.9, 'seed': sd()})
        add('array', 'QEN', recipe={'kind': 'list', 'values': [0.55, -0.02, 0.7]})      # a measured, dark-subtracted curve: one sample below zero
        add('array', 'GV', recipe={'kind': 'list', 'values': [1e-5, 0.02]})
        add('array', 'G2', recipe={'kind': 'uniform', 'shape': 'SQ', 'lo': 0.01, 'hi': 0.05, 'seed': sd()})
        add('array', 'G3', recipe={'kind': 'uniform', 'shape': 'G3', 'lo': 1e-6, 'hi': 0.02, 'seed': sd()})
        # arguments a caller keeps in arrays of its own and passes to call after call
        add('array', 'SHP', recipe={'kind': 'list', 'values': [rng.randint(4, 7), rng.randint(4, 7)], 'dtype': 'int64'})
        add('array', 'PXA', recipe={'kind': 'list', 'values': [ph['du'], ph['du']]})
        add('array', 'SHIFTV', recipe={'kind': 'list', 'values': [rng.uniform(-1.5, 1.5), rng.uniform(-1.5, 1.5)]})
        add('array', 'OFFV', recipe={'kind': 'list', 'values': [rng.randint(-2, 2), rng.randint(-2, 2)], 'dtype': 'int64'})
        add('array', 'ALPHA', recipe={'kind': 'list', 'values': [1.0 / (world['shapes']['S0'][0] + 2), 1.0 / (world['shapes']['S0'][1] + 1)]})
        add('array', 'TILTV', recipe={'kind': 'list', 'values': [1e-6, -2e-6]})
        # the same kinds of data in other dtypes, layouts and containers (for the generated calls of autocalls.py)
        add('array', 'IMGI', recipe={'kind': 'integers', 'shape': 'S1', 'lo': 0, 'hi': 4000, 'seed': sd(), 'dtype': rng.choice(['int32', 'int64', 'uint16'])})
        add('array', 'IMGF', recipe={'kind': 'uniform', 'shape': 'S1', 'lo': 0.0, 'hi': 300.0, 'seed': sd(), 'dtype': 'float32'})
        add('transposed_view', 'IMGT', a=['@IMG'])
        # degenerate but legal data: a frame without any signal, a map that sums to zero, an empty mask -- the inputs on which
        # divisions by a total, normalisations and fits take their error paths
        add('array', 'IMGZ', recipe={'kind': 'zeros', 'shape': 'S1'})
        add('array', 'OZS', recipe={'kind': 'ramp', 'shape': 'S0', 'a': 1e-7, 'b': -2e-7})
        add('array', 'MZ', recipe={'kind': 'zeros', 'shape': 'S0'})
        add('array', 'MI', recipe={'kind': 'disk', 'shape': 'S0', 'radius': rad, 'dtype': rng.choice(['int64', 'bool', 'uint8'])})
        add('asfortran', 'OF', a=['@O'])
        add('array', 'MODES', recipe={'kind': 'list', 'values': [1, 2, 3, 4], 'dtype': 'int64'})
        add('array', 'COEF', recipe={'kind': 'list', 'values': [1e-7, -2e-7, 5e-8]})
        add('array', 'WV3', recipe={'kind': 'list', 'values': [450.0, 550.0, 650.0]})
        add('array', 'WVQ', recipe={'kind': 'list', 'values': [455.0, 512.5, 590.0, 640.0]})
        add('array', 'WVC', recipe={'kind': 'list', 'values': [460.0, 500.0, 540.0, 580.0]})
        add('array', 'WVM', recipe={'kind': 'list', 'values': [500e-9, 550e-9, 600e-9]})
        add('array', 'RHO', recipe={'kind': 'uniform', 'shape': 'S0', 'lo': 0.0, 'hi': 1.3, 'seed': sd()})        # caller-supplied polar grid
        add('array', 'THETA', recipe={'kind': 'uniform', 'shape': 'S0', 'lo': -3.1, 'hi': 3.1, 'seed': sd()})
        add('Pupil', 'P0', k={'amplitude': '@A', 'opd': '@O', 'mask': '@M', 'pixelscale': ph['dx'], 'focal_length': ph['f']})
        add('Pupil', 'P1', k={'amplitude': '@A', 'opd': '@O', 'mask': '@MS', 'pixelscale': ph['dx'], 'focal_length': ph['f']})
        add('Pupil', 'P2', k={'amplitude': '@A', 'opd': '@O', 'pixelscale': ph['dx'], 'focal_length': ph['f']})
        add('Tilt', 'TL', k={'x': 2e-6 / ph['f'], 'y': -3e-6 / ph['f']})
        add('Pupil', 'PSC', k={'focal_length': ph['f'] * 1.5})
        add('DispersiveTilt', 'DT1', k={'trace': [rng.choice([0.5, -1.2]), 0.0], 'dispersion': [1e-3, ph['wl'] - 2e-8]})
        add('DispersiveTilt', 'DTH', k={'trace': [rng.choice([2.0, 50.0]), rng.choice([0.3, -1.0]), 0.0],
                                        'dispersion': rng.choice([[1e-3, ph['wl']], [rng.choice([0.5, 1e-3]), 1e-3, ph['wl']]])})
        add('Image', 'IMA', k={'amplitude': '@IMG'})
        add('Plane', 'PDEF', k={})
        add('Image', 'IM', k={})
        add('Wavefront', 'W0', a=[ph['wl']])
        unit2 = rng.choice(['um', 'um', 'angstrom', 'm', 'nm'])
        scale = {'um': 1e-3, 'angstrom': 10.0, 'm': 1e-9, 'nm': 1.0}[unit2]
        w1 = [400.0 + 25 * i for i in range(9)]
        w2 = [(450.0 + 40 * i) * scale for i in range(6)]
        add('Spectrum', 'SP1', a=[w1, [round(rng.uniform(0.1, 1.0), 3) for _ in w1]], k={'waveunit': 'nm'})
        add('Spectrum', 'SP2', a=[w2, [round(rng.uniform(0.1, 1.0), 3) for _ in w2]], k={'waveunit': unit2})
        add('Spectrum', 'SPF', a=[w1, [round(rng.uniform(1.0, 9.0), 3) for _ in w1]], k={'waveunit': 'nm', 'valueunit': 'photlam'})
        add('Blackbody', 'BB', a=[w1, 5000.0], k={'waveunit': 'nm'})
        add('Spectrum', 'SPI', a=[[int(x) for x in w1], [rng.randint(1, 5) for _ in w1]], k={'waveunit': 'nm'})     # whole numbers: integer-typed arrays
        add('Material', 'MAT', k={'transmission': '@SP1', 'emission': 0.01, 'contam': 0.9})
        world['unit2'] = unit2
        return ev

    # ---------------------------------------------------------------- fragments
    def fragments(self, world, rng, c):
        ph = world['phys']
        S0 = world['shapes']['S0']
        SQ = world['shapes']['SQ'][0]
        pre = 'c%d_' % c
        cnt = [0]

        def nid(tag='r'):
            cnt[0] += 1
            return '%s%s%d' % (pre, tag, cnt[0])

        def E(fn, a=None, k=None, id=None, **extra):
            e = {'c': c, 'fn': fn}
            if a is not None:
                e['a'] = a
            if k is not None:
                e['k'] = k
            e['id'] = id or nid()
            e.update(extra)
            return e

        def sd():
            return rng.choice([0, 0, 1, rng.randrange(10 ** 6), rng.randrange(10 ** 6), rng.randrange(10 ** 6)])

        def optics():
            out = []
            p = rng.choice(['P0', 'P0', 'P1', 'P2'])
            w1 = nid('w')
            out.append(E(rng.choice(['Plane.multiply', 'w*p']), ['@' + p, '@W0'], id=w1))
            if out[-1]['fn'] == 'w*p':
                out[-1]['a'] = ['@W0', '@' + p]
            src = w1
            if rng.random() < 0.4:
                wt = nid('w')
                out.append(E('Plane.multiply', ['@TL', '@' + src], id=wt))
                src = wt
            os_ = rng.choice([1, 2])
            n = [rng.randint(3, 8), rng.randint(3, 8)]
            k = {'pixelscale': ph['du'], 'shape': n, 'oversample': os_}
            if rng.random() < 0.3:
                k['prop_shape'] = [max(1, n[0] - rng.randint(0, 2)), max(1, n[1] - rng.randint(0, 2))]
            if rng.random() < 0.3:
                # arguments handed over in the caller's own arrays (twice: the arrays must come back unchanged and give the same answer)
                ka = {'pixelscale': '@PXA', 'shape': '@SHP', 'oversample': os_}
                first = E('propagate_dft', ['@' + src], dict(ka))
                out.append(first)
                out.append(E('propagate_dft', ['@' + src], dict(ka), t={'dup_of': first['id']}))
                out.append(E('propagate_fft', ['@' + w1], {'pixelscale': '@PXA', 'shape': '@SHP', 'oversample': os_}))
            if rng.random() < 0.3:
                # an output mask kept in ONE caller buffer that is refilled between exposures (a moving window)
                mk = nid('mk')
                out.append({'c': c, 'fn': 'array', 'id': mk, 'recipe': {'kind': rng.choice(['disk', 'rect']), 'shape': [n[0] * os_, n[1] * os_],
                                                                       'radius': min(n) * os_ / 3.0, 'half': [max(1, n[0] * os_ // 3), max(1, n[1] * os_ // 4)],
                                                                       'dr': rng.choice([0, 1, -1]), 'dc': rng.choice([0, 1]), 'degenerate_ok': True}})
                km = {'pixelscale': ph['du'], 'shape': n, 'oversample': os_, 'mask': '@' + mk}
                out.append(E('propagate_dft', ['@' + src], dict(km), t={'fresh': True}))
                mk2 = nid('mk')
                out.append({'c': c, 'fn': 'array', 'id': mk2, 'recipe': {'kind': 'rect', 'shape': [n[0] * os_, n[1] * os_], 'half': [1, 1],
                                                                        'dr': rng.choice([-1, 1]), 'dc': rng.choice([-1, 0, 1]), 'degenerate_ok': True}})
                out.append(E('h.refill', ['@' + mk, '@' + mk2], inplace=['@' + mk]))
                out.append(E('propagate_dft', ['@' + src], dict(km), t={'fresh': True}))
                out.append(E('propagate_dft', ['@' + src], dict(km, mask='@' + mk2), t={'fresh': True}))
            wi = nid('w')
            out.append(E('propagate_dft', ['@' + src], k, id=wi))
            out.append(E('attr', ['@' + wi, rng.choice(['field', 'intensity'])]))
            if rng.random() < 0.3:
                out.append(E(rng.choice(['field.reduce', 'field.overlap']), ['@' + wi]))
                out.append(E('attr', ['@' + wi, rng.choice(['field', 'intensity'])]))
            acc = nid('acc')
            out.append({'c': c, 'fn': 'array', 'id': acc,
                        'recipe': {'kind': 'uniform', 'shape': [n[0] * os_ + rng.randint(-1, 1), n[1] * os_ + rng.randint(-1, 1)],
                                   'lo': 0, 'hi': 1, 'seed': sd()}})
            out.append(E('Wavefront.insert', ['@' + wi, '@' + acc], {'weight': rng.choice([1, 0.5, 2.0])}, inplace=['@' + acc]))
            if rng.random() < 0.4:
                # attribute-less planes on wavefronts other callers share: products are new objects, operands untouched
                out.append(E('Plane.multiply', ['@PSC', '@' + w1]))
                out.append(E('Plane.multiply', ['@TL', '@W0']))
                out.append(E('Plane.multiply', ['@PDEF', '@W0']))
            if rng.random() < 0.3:
                out.append(E('setattr', ['@' + wi, 'ptype', rng.choice(['tilt', 'transform', 'bogus'])], inplace=['@' + wi], t={'expect': 'refuse'}))
                out.append(E('propagate_dft', ['@' + wi], {'pixelscale': ph['dx'], 'shape': [4, 5], 'oversample': 1}))
            if rng.random() < 0.3:
                # second hop with the default shape (taken from the wavefront it is given), twice
                hop = nid('w')
                out.append(E('propagate_dft', ['@' + wi], {'pixelscale': ph['dx'], 'oversample': rng.choice([1, 2])}, id=hop))
                out.append(E('propagate_dft', ['@' + wi], {'pixelscale': ph['dx'], 'oversample': 2}, t={'dup_of': None}))
                out.append(E('attr', ['@' + wi, 'intensity']))
            if rng.random() < 0.3:
                back = nid('w')
                out.append(E('propagate_dft', ['@' + wi], {'pixelscale': ph['dx'], 'shape': [rng.randint(3, 8)] * 2, 'oversample': 1}, id=back))
            return out

        def fft():
            out = []
            p = rng.choice(['P0', 'P1', 'P2'])
            w1 = nid('w')
            out.append(E('Plane.multiply', ['@' + p, '@W0'], id=w1))
            os_ = rng.choice([1, 2])
            g = ph['n0'] * os_
            k = {'pixelscale': ph['du'], 'oversample': os_}
            if rng.random() < 0.5:
                k['shape'] = [rng.randint(2, ph['n0']), rng.randint(2, ph['n0'])]
            if rng.random() < 0.6:
                sc = nid('sc')
                out.append({'c': c, 'fn': 'array', 'id': sc,
                            'recipe': {'kind': 'complex', 'shape': [g + rng.randint(1, 3), g + rng.randint(1, 3)], 'seed': sd()}})
                k['scratch'] = '@' + sc
                out.append(E('propagate_fft', ['@' + w1], k, inplace=['@' + sc]))
            else:
                out.append(E('propagate_fft', ['@' + w1], k))
            out.append(E('attr', ['@' + out[-1]['id'], 'field']))
            if rng.random() < 0.5:
                # one caller-owned scratch buffer across two grid sizes, then the first call again (F6 with a stale buffer)
                sc2 = nid('sc')
                g_big = ph['n0'] * 3
                out.append({'c': c, 'fn': 'array', 'id': sc2, 'recipe': {'kind': 'complex', 'shape': [g_big + 2, g_big + 1], 'seed': sd()}})
                first = nid('r')
                out.append(E('propagate_fft', ['@' + w1], {'pixelscale': ph['du'], 'oversample': 1, 'scratch': '@' + sc2}, id=first, inplace=['@' + sc2]))
                out.append(E('propagate_fft', ['@' + w1], {'pixelscale': ph['du'], 'oversample': rng.choice([2, 3]), 'scratch': '@' + sc2}, inplace=['@' + sc2]))
                out.append(E('propagate_fft', ['@' + w1], {'pixelscale': ph['du'], 'oversample': 1, 'scratch': '@' + sc2}, inplace=['@' + sc2],
                             t={'dup_of': first}))
            return out

        def fit():
            p = rng.choice(['P0', 'P1', 'P2'])
            out = [E('Plane.fit_tilt', ['@' + p], id=nid('q'))]
            q = out[-1]['id']
            out.append(E('attr', ['@' + p, 'ptt_vector']))
            out.append(E('Plane.copy', ['@' + p]))
            out.append(E('Plane.rescale', ['@' + p, rng.choice([0.5, 1.0, 1.5, 2.0])]))
            out.append(E('Plane.resample', ['@' + p, ph['dx'] * rng.choice([0.5, 1.0, 2.0])]))
            w1 = nid('w')
            out.append(E('Plane.multiply', ['@' + q, '@W0'], id=w1))
            out.append(E('propagate_dft', ['@' + w1], {'pixelscale': ph['du'], 'shape': [6, 6], 'oversample': 1}))
            # the tilt-carrying wavefront is kept and sent through the shared Tilt plane more than once
            for _ in range(rng.randint(1, 2)):
                wt = nid('w')
                out.append(E(rng.choice(['Plane.multiply', 'p*w']), ['@TL', '@' + w1], id=wt))
                out.append(E('propagate_dft', ['@' + wt], {'pixelscale': ph['du'], 'shape': [6, 7], 'oversample': 1}))
            return [out[0]] + rng.sample(out[1:5], rng.randint(1, 4)) + out[5:]

        def fit_inplace():
            out = []
            a, o, m = nid('a'), nid('o'), nid('m')
            out.append(E('np.copy', ['@A'], id=a))
            out.append(E('np.copy', ['@O'], id=o))
            out.append(E('np.copy', ['@MB'], id=m))
            p = nid('p')
            out.append(E('Pupil', None, {'amplitude': '@' + a, 'opd': '@' + o, 'mask': '@' + m, 'pixelscale': ph['dx'],
                                         'focal_length': ph['f']}, id=p))
            out.append(E('Plane.fit_tilt', ['@' + p], {'inplace': True}, inplace=['@' + p, '@' + o, '@' + a, '@' + m]))
            w1 = nid('w')
            out.append(E('Plane.multiply', ['@' + p, '@W0'], id=w1))
            out.append(E('propagate_dft', ['@' + w1], {'pixelscale': ph['du'], 'shape': [5, 6], 'oversample': 2}))
            return out

        def refused_fit():
            out = []
            a, o = nid('a'), nid('o')
            out.append(E('np.copy', ['@A'], id=a))
            out.append({'c': c, 'fn': 'array', 'id': o, 'recipe': {'kind': 'integers', 'shape': 'S0', 'lo': -3, 'hi': 4, 'seed': sd(), 'dtype': 'int64'}})
            p = nid('p')
            out.append(E('Pupil', None, {'amplitude': '@' + a, 'opd': '@' + o, 'mask': '@MB', 'pixelscale': ph['dx'], 'focal_length': ph['f']}, id=p))
            out.append(E('Plane.fit_tilt', ['@' + p], {'inplace': True}, inplace=['@' + p, '@' + o], t={'expect': 'refuse'}))
            q = nid('q')
            out.append(E('Plane.fit_tilt', ['@' + p], id=q))
            w1 = nid('w')
            out.append(E('Plane.multiply', ['@' + q, '@W0'], id=w1))
            out.append(E('propagate_dft', ['@' + w1], {'pixelscale': ph['du'], 'shape': [6, 6], 'oversample': 1}))
            return out

        def dispersive():
            """One shared dispersive element used at several wavelengths in seeded order -- the reference wavelength (solution at the
            trace origin) among them -- with repeats; then met by wavefronts of different wavelengths."""
            out = []
            d = rng.choice(['DTH', 'DTH', 'DT1'])
            wls = [ph['wl'], ph['wl'] + 5e-8, ph['wl'] - 5e-8, ph['wl'] + 1e-7, ph['wl'] - 2.5e-8]
            rng.shuffle(wls)
            first = None
            for wl_ in wls[:rng.randint(3, 5)]:
                e = E('Tilt.shift', ['@' + d], {'wavelength': wl_, 'xs': rng.choice([0.0, 1e-6]), 'ys': 0.0})
                first = first or e
                out.append(e)
            out.append(E('Tilt.shift', ['@' + d], dict(first['k']), t={'dup_of': first['id']}))
            for wl_ in wls[:2]:
                w0 = nid('w')
                out.append(E('Wavefront', [wl_], id=w0))
                w1 = nid('w')
                out.append(E('Plane.multiply', ['@P2', '@' + w0], id=w1))
                w2 = nid('w')
                out.append(E(rng.choice(['Plane.multiply', 'p*w']), ['@' + d, '@' + w1], id=w2))
                out.append(E('propagate_dft', ['@' + w2], {'pixelscale': ph['du'], 'shape': [8, 9], 'oversample': rng.choice([1, 2])}))
            return out

        def derived_inplace():
            """Objects derived from shared ones by calls documented to return new objects belong to the caller: documented in-place
            operations on them (and on what is derived from them) must leave the shared originals exactly as they were."""
            out = []
            p = rng.choice(['P0', 'P1', 'P2'])
            how = rng.choice(['copy', 'rescale', 'resample', 'fit'])
            q = nid('q')
            if how == 'copy':
                out.append(E('Plane.copy', ['@' + p], id=q))
            elif how == 'rescale':
                out.append(E('Plane.rescale', ['@' + p, rng.choice([1.0, 2.0, 1.5])], id=q))
            elif how == 'resample':
                out.append(E('Plane.resample', ['@' + p, ph['dx'] * rng.choice([1.0, 0.5])], id=q))
            else:
                out.append(E('Plane.fit_tilt', ['@' + p], id=q))
            ops = rng.sample(['fit', 'setopd', 'setamp', 'fit2'], rng.randint(1, 3))
            for op in ops:
                if op in ('fit', 'fit2'):
                    out.append(E('Plane.fit_tilt', ['@' + q], {'inplace': True}, inplace=['@' + q]))
                elif op == 'setopd':
                    out.append(E('setattr', ['@' + q, 'opd', rng.choice([0.0, 1e-8])], inplace=['@' + q]))
                else:
                    out.append(E('setattr', ['@' + q, 'amplitude', rng.choice([1.0, 0.5])], inplace=['@' + q]))
            # the shared original is used again (and a second derivation must look like the first one would on a fresh plane)
            w1 = nid('w')
            out.append(E('Plane.multiply', ['@' + p, '@W0'], id=w1))
            out.append(E('propagate_dft', ['@' + w1], {'pixelscale': ph['du'], 'shape': [6, 7], 'oversample': 1}))
            out.append(E('Plane.fit_tilt', ['@' + p]))
            if rng.random() < 0.5:
                # derived wavefronts: accumulate-into-array on the caller's own image leaves the shared source alone
                w2 = nid('w')
                out.append(E('Plane.multiply', ['@TL', '@' + w1], id=w2))
                out.append(E('setattr', ['@' + w2, 'focal_length', ph['f'] * 2], inplace=['@' + w2]))
                out.append(E('attr', ['@' + w1, 'focal_length']))
            # derived spectra
            if rng.random() < 0.5:
                sp = nid('sp')
                how_ = rng.choice(['op', 'op', 'material', 'path'])
                if how_ == 'op':
                    out.append(E(rng.choice(['s*', 's+']), ['@SP1', rng.choice([1.0, 0.0, 2.0])], id=sp))
                elif how_ == 'material':
                    out.append(E('attr', ['@MAT', rng.choice(['transmission', 'emission'])], id=sp))
                else:
                    out.append(E('path_transmission', [rng.choice([['@MAT'], ['@SP1'], ['@SP1', 1.0]])], id=sp))
                # (in either order: the first in-place edit is the one that meets whatever the derived object still shares with its source)
                edits_ = [E('Spectrum.crop', ['@' + sp, 450.0, 550.0], inplace=['@' + sp]),
                          E('Spectrum.to', ['@' + sp, rng.choice(['um', 'm', 'angstrom'])], inplace=['@' + sp])]
                if rng.random() < 0.5:
                    edits_.reverse()
                    edits_[1]['a'][1:] = [0.45, 0.55] if edits_[0]['a'][1] == 'um' else ([4.5e-7, 5.5e-7] if edits_[0]['a'][1] == 'm' else [4500.0, 5500.0])
                out.extend(edits_)
                out.append(E('Spectrum.integrate', ['@SP1']))
            return out

        def misc():
            out = [E('spider', [[9, 9], 1.5], {'angle': rng.choice([0, 30, 90]), 'shift': [rng.randint(-1, 1), 0]}),
                   E('hex_segments', None, {'rings': 1, 'seg_radius': 4, 'seg_gap': 1, 'flatten': rng.random() < 0.5, 'rotate': rng.random() < 0.5}),
                   E('pixelscale_nyquist', [ph['wl'], rng.choice([10.0, 20.0])]),
                   E('min_sampling', [[500e-9, 600e-9], ph['f'], [ph['du'], ph['du']], [8, 8], 2]),
                   E('sanitize_shape', [rng.choice([7, [7, 8]])]),
                   E('sanitize_bandpass', [rng.choice([550e-9, [500e-9, 600e-9]])]),
                   E('zernike_coordinates', ['@MB'], {'shift': rng.choice([None, [1, 0]]), 'rotate': rng.choice([0, 30])}),
                   E('mesh', [[5, 6]], {'shift': [rng.randint(-1, 1), 0], 'angle': rng.choice([0, 45])}),
                   E('gaussian2d', [rng.choice([5, 6]), rng.choice([0.8, 1.5])]),
                   E('boundary_slice', ['@MB'], {'pad': rng.choice([[0, 0], [1, 1]])}),
                   E('vegaflux', [rng.choice(['V', 'R', 'J'])], {'waveunit': rng.choice(['nm', 'um']), 'valueunit': rng.choice(['photlam', 'flam'])}),
                   E('qe_asarray', [rng.choice([0.7, '@QEV', '@SP1', '@SP2']), [450.0, 550.0, 650.0], 'nm']),
                   E('Spectrum.ends', ['@' + rng.choice(['SP1', 'SP2', 'SPF'])], {'tol': rng.choice([1e-4, 0.2])}),
                   E('Blackbody', [[400.0, 500.0, 600.0], rng.choice([4000.0, 6000.0])], {'waveunit': 'nm'}),
                   E('Plane.multiply', ['@IMA', '@W0'])]
            return rng.sample(out, rng.randint(3, 6))

        def attr_path():
            """The same public plane state reached by construction and by attribute updates (C10.fresh compares the used, updated plane
            with a clone built from its public state in a pristine process)."""
            out = []
            S = world['shapes']['S0']
            a1, a2, o2 = nid('a'), nid('a'), nid('o')
            disk = lambda dr, dc, rad: {'kind': 'disk', 'shape': 'S0', 'radius': rad, 'dr': dr, 'dc': dc}
            out.append({'c': c, 'fn': 'array', 'id': a1, 'recipe': {'kind': 'mul', 'x': {'kind': 'uniform', 'shape': 'S0', 'lo': 0.4, 'hi': 1.0, 'seed': sd()},
                                                                   'y': disk(-1, -1, min(S) / 2.0 - 1.2)}})
            out.append({'c': c, 'fn': 'array', 'id': a2, 'recipe': {'kind': 'mul', 'x': {'kind': 'uniform', 'shape': 'S0', 'lo': 0.4, 'hi': 1.0, 'seed': sd()},
                                                                   'y': rng.choice([disk(1, 1, min(S) / 2.0 - 0.8), {'kind': 'ones', 'shape': 'S0'},
                                                                                    {'kind': 'rect', 'shape': 'S0', 'half': [1, max(1, S[1] // 2)], 'dr': 1, 'dc': 0}])}})
            out.append({'c': c, 'fn': 'array', 'id': o2, 'recipe': {'kind': 'normal', 'shape': 'S0', 'sigma': 3e-8, 'seed': sd()}})
            p = nid('p')
            kw = {'amplitude': '@' + a1, 'pixelscale': ph['dx'], 'focal_length': ph['f']}
            if rng.random() < 0.5:
                kw['opd'] = '@O'
            out.append(E(rng.choice(['Pupil', 'Pupil', 'Plane']), None, kw if True else None, id=p))
            if out[-1]['fn'] == 'Plane':
                out[-1]['k'] = {k_: v_ for k_, v_ in kw.items() if k_ != 'focal_length'}
            out.append(E('Plane.multiply', ['@' + p, '@W0']))
            ups = [('amplitude', '@' + a2), ('opd', '@' + o2), ('amplitude', rng.choice([1.0, 0.5])), ('opd', 0.0)]
            for name, val in rng.sample(ups, rng.randint(1, 3)):
                out.append(E('setattr', ['@' + p, name, val], inplace=['@' + p]))
                for fn_, a_ in (('Plane.multiply', ['@' + p, '@W0']), ('attr', ['@' + p, 'ptt_vector']), ('Plane.fit_tilt', ['@' + p]),
                                ('Plane.rescale', ['@' + p, 1.5]), ('attr', ['@' + p, 'shape'])):
                    if rng.random() < 0.6:
                        out.append(E(fn_, a_, t={'fresh': True}))
            return out

        def setters():
            """Every settable attribute of every class: an object that has been used, then updated by its owner through the documented
            attribute, answers like a fresh object in the same public state (C10.fresh builds that fresh object in a pristine process)."""
            out = []
            kind = rng.choice(['tilt', 'disp', 'pupil', 'spectrum', 'material', 'wavefront'])
            o = nid('o')
            if kind == 'tilt':
                out.append(E('Tilt', None, {'x': 1e-6, 'y': -2e-6}, id=o))
                out.append(E('Tilt.shift', ['@' + o], {'xs': 0.0, 'ys': 0.0, 'z': 1.0}))
                out.append(E('setattr', ['@' + o, rng.choice(['x', 'y']), rng.choice([3e-6, 0.0, -1e-6])], inplace=['@' + o]))
                out.append(E('Tilt.shift', ['@' + o], {'xs': 0.0, 'ys': 1e-6, 'z': 1.0}, t={'fresh': True}))
                w1 = nid('w')
                out.append(E('Plane.multiply', ['@P2', '@W0'], id=w1))
                w2 = nid('w')
                out.append(E('Plane.multiply', ['@' + o, '@' + w1], id=w2))
                out.append(E('propagate_dft', ['@' + w2], {'pixelscale': ph['du'], 'shape': [7, 8], 'oversample': 1}, t={'fresh': True}))
            elif kind == 'disp':
                tr = [rng.choice([2.0, 50.0]), 0.3, 0.0] if rng.random() < 0.6 else [0.5, 0.0]
                out.append(E('DispersiveTilt', None, {'trace': tr, 'dispersion': [1e-3, ph['wl'] - 3e-8]}, id=o))
                out.append(E('Tilt.shift', ['@' + o], {'wavelength': ph['wl']}))
                if rng.random() < 0.5:
                    out.append(E('setattr', ['@' + o, 'trace', {'$nd': [c_ * (0.5 if j_ < len(tr) - 1 else 1) for j_, c_ in enumerate(tr)]}], inplace=['@' + o]))
                else:
                    out.append(E('setattr', ['@' + o, 'dispersion', {'$nd': [2e-3, ph['wl'] - 1e-8]}], inplace=['@' + o]))
                out.append(E('Tilt.shift', ['@' + o], {'wavelength': ph['wl']}, t={'fresh': True}))
                out.append(E('Tilt.shift', ['@' + o], {'wavelength': ph['wl'] + 4e-8}, t={'fresh': True}))
            elif kind == 'pupil':
                out.append(E('Pupil', None, {'amplitude': '@A', 'opd': '@O', 'mask': '@MB', 'pixelscale': ph['dx'], 'focal_length': ph['f']}, id=o))
                out.append(E('Plane.multiply', ['@' + o, '@W0']))
                sc_ = rng.choice([1.5, 2.0])
                out.append(E('Plane.rescale', ['@' + o, sc_]))
                out.append(E('Plane.fit_tilt', ['@' + o]))
                out.append(E('Plane.copy', ['@' + o]))
                out.append(E('setattr', ['@' + o, 'focal_length', ph['f'] * rng.choice([2.0, 0.5])], inplace=['@' + o]))
                for fn_, a_ in (('Plane.rescale', ['@' + o, sc_]), ('Plane.fit_tilt', ['@' + o]), ('Plane.copy', ['@' + o]), ('Plane.resample', ['@' + o, ph['dx'] / sc_])):
                    out.append(E(fn_, a_, t={'fresh': True}))
                w1 = nid('w')
                out.append(E('Plane.multiply', ['@' + o, '@W0'], id=w1, t={'fresh': True}))
                out.append(E('propagate_dft', ['@' + w1], {'pixelscale': ph['du'], 'shape': [6, 6], 'oversample': 1}, t={'fresh': True}))
            elif kind == 'spectrum':
                out.append(E('Spectrum.copy', ['@' + rng.choice(['SP1', 'SP2'])], id=o))
                out.append(E('Spectrum.integrate', ['@' + o]))
                out.append(E('Spectrum.sample', ['@' + o, [500.0, 512.0]], {'waveunit': 'nm'}))
                out.append(E('setattr', ['@' + o, 'value', {'$nd': [round(rng.uniform(0.1, 1.0), 3) for _ in range(9 if rng.random() < 0.5 else 6)]}],
                             inplace=['@' + o]))
                for fn_, a_, k_ in (('Spectrum.integrate', ['@' + o], None), ('Spectrum.sample', ['@' + o, [500.0, 512.0]], {'waveunit': 'nm'}),
                                    ('s*', ['@' + o, '@SP1'], None), ('Spectrum.ends', ['@' + o], None),
                                    ('Spectrum.bin', ['@' + o, [480.0, 520.0, 560.0]], {'waveunit': 'nm'})):
                    out.append(E(fn_, a_, k_, t={'fresh': True}))
            elif kind == 'material':
                out.append(E('Material', None, {'transmission': '@SP1', 'emission': 0.02, 'contam': 0.8}, id=o))
                out.append(E('path_transmission', [['@' + o, 0.9]]))
                out.append(E('setattr', ['@' + o, rng.choice(['contam', 'emission', 'transmission']), rng.choice([0.5, 0.95])], inplace=['@' + o]))
                out.append(E('path_transmission', [['@' + o, 0.9]], t={'fresh': True}))
                out.append(E('path_emission', [['@' + o]], {'emission': 0.0}, t={'fresh': True}))
            else:
                w1 = nid('w')
                out.append(E('Plane.multiply', ['@P0', '@W0'], id=w1))
                out.append(E('propagate_dft', ['@' + w1], {'pixelscale': ph['du'], 'shape': [6, 7], 'oversample': 1}))
                out.append(E('setattr', ['@' + w1, 'focal_length', ph['f'] * 2], inplace=['@' + w1]))
                out.append(E('propagate_dft', ['@' + w1], {'pixelscale': ph['du'], 'shape': [6, 7], 'oversample': 1}, t={'fresh': True}))
            return out

        def ephemeral():
            """Short-lived caller arrays: use one, let go of it (and of what was computed from it), allocate another of the same shape
            with other content and use that -- its memory address and id() may well be the first one's."""
            out = []
            which = rng.choice(['mask', 'frame', 'field', 'opd'])
            first = None
            for rep in range(rng.randint(2, 4)):
                a = nid('e')
                if which == 'mask':
                    out.append({'c': c, 'fn': 'array', 'id': a, 'recipe': {'kind': 'rect', 'shape': [8, 8], 'half': [1, 2], 'dr': rep - 1, 'dc': (rep * 2) % 3 - 1,
                                                                         'degenerate_ok': True}})
                    w1 = nid('w')
                    out.append(E('Plane.multiply', ['@P2', '@W0'], id=w1))
                    r = E('propagate_dft', ['@' + w1], {'pixelscale': ph['du'], 'shape': [4, 4], 'oversample': 2, 'mask': '@' + a}, t={'fresh': True})
                    extra = [w1]
                elif which == 'frame':
                    out.append({'c': c, 'fn': 'array', 'id': a, 'recipe': {'kind': 'uniform', 'shape': [6, 5], 'lo': 1500.0 * (rep + 1), 'hi': 4000.0 * (rep + 1), 'seed': sd()}})
                    r = E(rng.choice(['shot_noise', 'read_noise', 'pixel', 'adc']), ['@' + a], None, t={'fresh': True})
                    if r['fn'] == 'shot_noise':
                        r['k'] = {'method': 'gaussian', 'seed': 3}
                    elif r['fn'] == 'read_noise':
                        r['a'].append(2.0)
                        r['k'] = {'seed': 3}
                    elif r['fn'] == 'adc':
                        r['a'].append(0.02)
                    extra = []
                elif which == 'field':
                    out.append({'c': c, 'fn': 'array', 'id': a, 'recipe': {'kind': 'complex', 'shape': [5, 6], 'seed': sd()}})
                    r = E('dft2', ['@' + a, 0.1], {'shape': [4, 5]}, t={'fresh': True})
                    extra = []
                else:
                    out.append({'c': c, 'fn': 'array', 'id': a, 'recipe': {'kind': 'normal', 'shape': 'S0', 'sigma': 3e-8 * (rep + 1), 'seed': sd()}})
                    pp = nid('p')
                    out.append(E('Pupil', None, {'amplitude': '@A', 'opd': '@' + a, 'mask': '@MB', 'pixelscale': ph['dx'], 'focal_length': ph['f']}, id=pp))
                    r = E('Plane.multiply', ['@' + pp, '@W0'], t={'fresh': True})
                    extra = [pp]
                out.append(r)
                out.append({'env': 'drop', 'c': c, 'targets': ['@' + x for x in [a, r['id']] + extra]})
            return out

        def refusals():
            """Calls that are refused (or may be, depending on the implementation): whatever the outcome, every shared object must be
            byte-identical afterwards, the outcome must be the same solo / interleaved / in a pristine process, and later calls unaffected."""
            out = [E('propagate_dft', ['@W0'], {'pixelscale': ph['du'], 'shape': [4, 4], 'oversample': 1}),
                   E('propagate_fft', ['@W0'], {'pixelscale': ph['du'], 'oversample': 1}),
                   E('Plane.multiply', ['@IM', '@' + rng.choice(['W0', 'W0'])]),
                   E('dft2', ['@CX', 0.1], {'shape': [4, 5], 'out': '@A'}),
                   E('dft2', ['@CX', [0.1, 0.2, 0.3]], {'shape': [4, 5]}),
                   E('rebin', ['@IMG', 7]),
                   E('zernike', ['@MB', 0]),
                   E('zernike_fit', ['@O', '@CUBE', [1, 2, 3]]),
                   E('Plane.resample', ['@PSC', ph['dx']]),
                   E('Plane.fit_tilt', ['@PDEF']),
                   E('collect_charge', ['@CUBE', [450.0, 550.0], 0.8]),
                   E('collect_charge', ['@CUBE', [450.0, 550.0, 650.0], '@SP1'], {'waveunit': 'bogus'}),
                   E('adc', ['@ISQ', '@CUBE']),
                   E('adc', ['@ISQ', 0.02], {'dtype': 'not-a-dtype'}),
                   E('shot_noise', ['@O'], {'method': rng.choice(['poisson', 'gaussian']), 'seed': sd()}),
                   E('shot_noise', ['@ISQ'], {'method': 'binomial', 'seed': sd()}),
                   E('read_noise', ['@IMG', -1.0], {'seed': sd()}),
                   E('Spectrum.sample', ['@SP1', [500.0, 510.0]], {'waveunit': 'furlong'}),
                   E('Spectrum.sample', ['@SP1', [500.0, 510.0]], {'method': 'bogus'}),
                   E('Spectrum.bin', ['@SP1', [450.0, 500.0, 550.0]], {'interp_method': 'bogus'}),
                   E('Spectrum.bin', ['@SP2', [450.0]], {'waveunit': 'nm'}),
                   E('Spectrum.integrate', ['@SP1'], {'method': 'bogus'}),
                   E('s*', ['@SP1', [1.0, 2.0]]),
                   E('s+', ['@SP1', 'text']),
                   E('Spectrum', [[3.0, 2.0, 1.0], '@QEV']),
                   E('Spectrum', ['@QEV', [1.0, 2.0]]),
                   E('Blackbody', [[400.0, 500.0], -5.0]),
                   E('Pupil', None, {'amplitude': '@A', 'amp': '@A'}),
                   E('Wavefront', [ph['wl']], {'tilt': [1e-6]}),
                   E('Wavefront', [ph['wl']], {'ptype': 'tilt'}),
                   E('pad', ['@CUBE', [3]]),
                   E('window', ['@IMG'], {'shape': [3, 3], 'window': [0, 2, 0]}),
                   E('power_spectrum', ['@CUBE'], {'pixelscale': ph['dx'], 'rms': 5e-8, 'half_power_freq': 8.0, 'exp': 3.0, 'seed': sd()}),
                   E('circle', [[9], 3.0]),
                   E('path_transmission', [['@SP1', 'text']])]
            picks = rng.sample(out, rng.randint(3, 7))
            # ... and the shared objects answer as before
            picks.append(E('Plane.multiply', ['@P0', '@W0']))
            picks.append(E('Spectrum.integrate', ['@SP1']))
            return picks

        def auto():
            """Generated calls over the whole public surface (autocalls.py): any outcome is fine, purity is what is judged."""
            out = []
            wfp = nid('w')
            out.append(E('Plane.multiply', ['@' + rng.choice(['P0', 'P1', 'P2']), '@W0'], id=wfp))
            ctx = {'DU': ph['du'], 'DX': ph['dx'], 'WL': ph['wl'], 'WL2': ph['wl'] - 4e-8, 'S0': list(S0), 'wfp': '@' + wfp}
            for _ in range(rng.randint(3, 8)):
                fn_, a_, k_ = autocalls.autocall(rng, ctx)
                e = E(fn_, a_, k_ or None)
                if 'seed' in k_:
                    e.setdefault('t', {})['seeded'] = True
                out.append(e)
            return out

        def used_vs_fresh():
            """A plane that has been used, then had its arrays updated in place by their owner, answers like a fresh plane in the same state."""
            out = []
            a, o = nid('a'), nid('o')
            out.append(E('np.copy', ['@A'], id=a))
            out.append(E('np.copy', ['@O'], id=o))
            kw = {'amplitude': '@' + a, 'opd': '@' + o, 'mask': '@' + rng.choice(['MB', 'MS']), 'pixelscale': ph['dx'], 'focal_length': ph['f']}
            if rng.random() < 0.4:
                del kw['mask']
            p = nid('p')
            out.append(E('Pupil', None, dict(kw), id=p))
            out.append(E('Plane.multiply', ['@' + p, '@W0']))
            out.append({'env': 'perturb', 'c': c, 'target': '@' + rng.choice([a, o]), 'seed': sd(), 'scale': None})
            used = nid('w')
            out.append(E('Plane.multiply', ['@' + p, '@W0'], id=used))
            if 'mask' in kw:
                fresh_p = nid('p')
                out.append(E('Pupil', None, dict(kw), id=fresh_p))
                fresh = nid('w')
                out.append(E('Plane.multiply', ['@' + fresh_p, '@W0'], id=fresh))
                out.append(E('check.same_state', ['@' + used, '@' + fresh, '@' + p, '@' + fresh_p], t={'oracle': 'C10.path'}))
            return out

        def path():
            """Same plane state through two sequences of updates and tilt fits (C10.path)."""
            out = []
            mask = rng.choice(['MB', 'MS'])
            ab = nid('ab')
            out.append(E('np.add', ['@O', '@B'], id=ab))
            px = nid('p')
            out.append(E('Pupil', None, {'amplitude': '@A', 'opd': '@' + ab, 'mask': '@' + mask, 'pixelscale': ph['dx'],
                                         'focal_length': ph['f']}, id=px))
            qx = nid('q')
            out.append(E('Plane.fit_tilt', ['@' + px], id=qx))
            o = nid('o')
            out.append(E('np.copy', ['@O'], id=o))
            py = nid('p')
            out.append(E('Pupil', None, {'amplitude': '@A', 'opd': '@' + o, 'mask': '@' + mask, 'pixelscale': ph['dx'],
                                         'focal_length': ph['f']}, id=py))
            # fit in place, update the OPD attribute, fit in place again -- one atomic step for the minimiser
            out.append(E('h.refit', ['@' + py, '@B'], inplace=['@' + py, '@' + o], id=nid('p')))
            k = {'pixelscale': ph['du'], 'shape': [rng.randint(5, 9), rng.randint(5, 9)], 'oversample': rng.choice([1, 2])}
            ws = []
            for q in (qx, py):
                w1 = nid('w')
                out.append(E('Plane.multiply', ['@' + q, '@W0'], id=w1))
                wi = nid('w')
                out.append(E('propagate_dft', ['@' + w1], dict(k), id=wi))
                ws.append(wi)
            out.append(E('check.same_image', ['@' + ws[0], '@' + ws[1], '@' + qx, '@' + py], t={'oracle': 'C10.path'}))
            return out

        def dft():
            out = []
            shp = [4, 5] if rng.random() < 0.6 else [rng.randint(3, 7), rng.randint(3, 7)]
            alpha = [1.0 / (S0[0] + rng.randint(0, 3)), 1.0 / (S0[1] + rng.randint(0, 3))]
            for _ in range(rng.randint(2, 4)):
                k = {'shape': shp, 'shift': [rng.uniform(-2, 2), rng.uniform(-2, 2)],
                     'offset': [rng.randint(-3, 3), rng.randint(-3, 3)], 'unitary': rng.random() < 0.7}
                if rng.random() < 0.4:
                    ob = nid('ob')
                    out.append({'c': c, 'fn': 'array', 'id': ob, 'recipe': {'kind': 'complex', 'shape': shp, 'seed': sd()}})
                    k['out'] = '@' + ob
                    out.append(E('dft2', ['@CX', alpha], k, inplace=['@' + ob]))
                else:
                    out.append(E('dft2', ['@CX', alpha], k))
            if rng.random() < 0.5:
                out.append(E('idft2', ['@CX', alpha], {'shape': shp, 'unitary': True}))
            if rng.random() < 0.4:
                ka = {'shape': '@SHP', 'shift': '@SHIFTV', 'offset': '@OFFV', 'unitary': True}
                first = E('dft2', ['@CX', '@ALPHA'], dict(ka))
                out.append(first)
                out.append(E('idft2', ['@CX', '@ALPHA'], dict(ka)))
                out.append(E('dft2', ['@CX', '@ALPHA'], dict(ka), t={'dup_of': first['id']}))
            return out

        def zern():
            out = [E('zernike', ['@MB', rng.randint(1, 8)]),
                   E('zernike_basis', ['@MB', [1, 2, 3, 4]]),
                   E('zernike_compose', ['@MB', [rng.uniform(-1, 1) for _ in range(4)]]),
                   E('zernike_fit', ['@O', '@MB', [1, 2, 3]]),
                   E('zernike_remove', ['@O', '@MB', [2, 3]])]
            return rng.sample(out, rng.randint(2, 5))

        def util():
            out = [E('pad', ['@A', [S0[0] + rng.randint(-2, 3), S0[1] + rng.randint(-2, 3)]]),
                   E('window', ['@IMG'], {'shape': [3, 3]}),
                   E('subarray', ['@A', [2, 2]], {'shift': [rng.randint(-1, 1), rng.randint(-1, 1)]}),
                   E('rebin', ['@ISQ', 2]),
                   E('rescale', ['@A', rng.choice([0.5, 1.5, 2.0])]),
                   E('rescale', ['@' + rng.choice(['A', 'CX', 'O']), rng.choice([1.0, 1.0, 2.0, 0.5])],
                     {'mask': '@' + rng.choice(['M', 'MB']), 'unitary': rng.random() < 0.5}),      # identity scale, caller-supplied mask
                   E('pad', ['@A', list(S0)]),
                   E('rebin', ['@ISQ', 1]),
                   E('subarray', ['@A', list(S0)]),
                   E('window', ['@IMG']),
                   E('normalize_power', ['@A'], {'power': rng.choice([1, 2.5])}),
                   E('centroid', ['@IMG']),
                   E('boundary', ['@M']),
                   E('circle', [[9, 8], 3.2], {'shift': [rng.randint(-1, 1), 0]}),
                   E('hexagon', [[9, 9], 3.5], {'shift': [rng.randint(-1, 1), rng.randint(-1, 1)]}),
                   E('hexagon', [[9, 9], 2.5], {'shift': [0, rng.choice([-2, 0, 2])], 'rotate': True}),
                   E('rectangle', [[8, 9], 4, 3], {'shift': [rng.randint(-1, 1), 0], 'angle': rng.choice([0, 0, 30])}),
                   E('translation_defocus', ['@MB'], {'f_number': 10.0, 'translation': 1e-6})]
            return rng.sample(out, rng.randint(3, 6))

        def detector():
            wave = [450.0, 550.0, 650.0]
            qe = rng.choice([0.8, '@QEV', '@SP1', '@SP2', '@QEN'])
            wu = 'nm'
            sq_ = world['shapes']['SQ'][0]
            bos = [1, 2] if sq_ % 4 == 0 else [1]
            rng.shuffle(bos)
            bk = {'qe_red': rng.choice([0.5, '@QEN']), 'qe_green': '@QEV', 'qe_blue': rng.choice([0.7, '@SP1']), 'bayer_pattern': rng.choice(['RGGB', 'BGGR'])}
            out = [E('collect_charge', ['@CUBE', wave, qe], {'waveunit': wu})] + \
                  [E('collect_charge_bayer', ['@CUBE', wave], dict(bk, oversample=o_)) for o_ in bos] + \
                  [
                   E('pixel', ['@ISQ'], {'oversample': rng.choice([1, 2])}),
                   E('pixel', ['@IMG'], {'oversample': 1}),
                   E('pixelate', ['@ISQ'], {'oversample': 2}),
                   E('jitter', ['@IMG', rng.choice([0.5, 1.5, 0.0])], {'oversample': 1}),
                   E('pixelate', ['@IMG'], {'oversample': 1}),
                   E('smear', ['@IMG', rng.choice([1.0, 3.0])], {'angle': rng.choice([0, 30, 90])}),
                   E('charge_diffusion', ['@IMG', 0.8], {'oversample': 1}),
                   E('adc', ['@ISQ', rng.choice([0.02, '@GV', '@G2', '@G3'])],
                     {'saturation_capacity': rng.choice([None, 2500, 4000]), 'warn_saturate': rng.random() < 0.5,
                      'dtype': rng.choice([None, 'uint16'])}),
                   E('shot_noise', ['@ISQ'], {'method': rng.choice(['poisson', 'gaussian']), 'seed': sd()}),
                   E('read_noise', ['@IMG', 10.0], {'seed': sd()}),
                   E('dark_current', [rng.choice([5.5, 100.0])], {'shape': [4, 5], 'fpn_factor': rng.choice([0, 0.2]), 'seed': sd()}),
                   E('dark_current', [12.5], {'shape': '@SHP', 'fpn_factor': 0.2, 'seed': sd()}),
                   E('Wavefront', [ph['wl']], {'tilt': '@TILTV', 'pixelscale': '@PXA'}),
                   E('rule07_dark_current', [100.0, 5e-6, 18e-6], {'shape': [3, 4], 'fpn_factor': 0.3, 'seed': sd()}),
                   E('power_spectrum', ['@MB'], {'pixelscale': ph['dx'], 'rms': 5e-8, 'half_power_freq': 8.0, 'exp': 3.0, 'seed': sd()}),
                   # every public callable that is handed a seed (today these two do not take one and refuse)
                   E('cosmic_rays', [[6, 7], [5e-6, 5e-6, 3e-6], 2.0], {'seed': sd()}),
                   E('smear', ['@IMG', 2.0], {'seed': sd()})]
            picks = rng.sample(out, rng.randint(3, 7))
            for e in picks:
                if 'seed' in e.get('k', {}):
                    e.setdefault('t', {})['seeded'] = True
            return picks

        def spectra():
            out = [E(rng.choice(['s*', 's+', 's-', 's/']), ['@SP1', '@SP2']),
                   E(rng.choice(['s*', 's+']), ['@SP2', '@SP1']),
                   E('s*', ['@SP1', rng.choice([2.0, 0.5])]),
                   E('Spectrum.multiply', ['@SP1', '@SP2'], {'sampling': rng.choice(['min', 'left', 'right'])}),
                   E('Spectrum.sample', ['@SP1', [500.0, 510.0, 615.0]]),
                   E('Spectrum.sample', ['@SP2', [500.0, 510.0, 615.0]], {'waveunit': 'nm'}),
                   E('Spectrum.bin', ['@SP1', [450.0, 500.0, 550.0, 600.0]], {'interp_method': rng.choice(['simps', 'trapz']),
                                                                             'ends': rng.choice(['symmetric', 'inside'])}),
                   E('Spectrum.bin', ['@SP2', [475.0, 525.0, 575.0]], {'interp_method': 'trapz', 'waveunit': 'nm'}),
                   E('Spectrum.integrate', ['@SP1'], {'method': rng.choice(['simps', 'trapz'])}),
                   E('Spectrum.integrate', ['@SP2'], {'method': 'trapz'}),
                   E('Spectrum.asarray', ['@' + rng.choice(['SP1', 'SP2', 'SPF'])]),
                   E('Spectrum.sample', ['@BB', [500.0, 600.0]]),
                   E('s*', ['@SPF', '@SP1']),
                   E('path_transmission', [['@SP1', '@MAT', 0.9]]),
                   E('path_emission', [['@MAT']], {'emission': 0.0}),
                   E('planck_radiance', [[500.0, 900.0], 4500.0], {'waveunit': 'nm', 'valueunit': 'photlam'}),
                   E('planck_exitance', [[0.5, 0.9], 4500.0], {'waveunit': 'um'})]
            picks = rng.sample(out, rng.randint(3, 7))
            if rng.random() < 0.5:
                sp = nid('sp')
                picks.append(E('Spectrum.copy', ['@' + rng.choice(['SP1', 'SP2', 'SPF'])], id=sp))
                picks.append(E('Spectrum.to', ['@' + sp, rng.choice(['um', 'nm', 'angstrom'])], inplace=['@' + sp]))
                picks.append(E('Spectrum.crop', ['@' + sp, 0.0001, 1e9], inplace=['@' + sp]))
                picks.append(E('Spectrum.asarray', ['@' + sp]))
            return picks

        table = [(optics, 3), (fft, 2), (fit, 2), (fit_inplace, 1), (path, 1.5), (refused_fit, 0.7), (used_vs_fresh, 1.2), (dft, 2), (zern, 1), (util, 1.5),
                 (detector, 3), (spectra, 3), (dispersive, 1.2), (derived_inplace, 1.5), (misc, 1.2), (refusals, 1.2), (attr_path, 1.2), (auto, 4), (setters, 1.5), (ephemeral, 1.2)]
        return table

    # ---------------------------------------------------------------- generation
    def generate(self, rng):
        world = self.base_world(rng)
        K = rng.randint(2, 4)
        world['K'] = K
        world['frozen'] = rng.random() < 0.25
        events = self.setup_events(world, rng)
        shared_arrays = [e['id'] for e in events if e['fn'] == 'array']
        progs = []
        for c in range(K):
            table = self.fragments(world, rng, c)
            fns = [t[0] for t in table]
            wts = [t[1] for t in table]
            prog = []
            for _ in range(rng.randint(2, 5 * self.depth)):
                prog += rng.choices(fns, wts)[0]()
            progs.append(prog[:40 * self.depth])
        if world['frozen']:
            events.append({'env': 'freeze', 'targets': ['@' + a for a in shared_arrays]})
        events += self.interleave(rng, progs)
        return {'scenario': self.name, 'world': world, 'events': events}

    @staticmethod
    def _dup_ok(ev):
        """A pure call on shared objects / literals only can be re-issued later (F6)."""
        if 'fn' not in ev or ev.get('inplace') or ev['fn'] in ('array', 'setattr', 'check.same_image', 'np.copy', 'np.add', 'attr'):
            return False

        def shared(v):
            if isinstance(v, str) and v.startswith('@'):
                return not v[1:].startswith('c')
            if isinstance(v, list):
                return all(shared(x) for x in v)
            return True
        return all(shared(x) for x in ev.get('a', [])) and all(shared(x) for x in ev.get('k', {}).values())

    # one-argument-varied repeats: (position or keyword) -> alternatives; the variant differs from the call it follows in exactly
    # one argument, so a memo keyed without that argument (or state left behind by the first call) shows against the pristine process
    VARIANTS = {
        'power_spectrum': {'pixelscale': lambda v: v * 2, 'rms': lambda v: v * 3, 'half_power_freq': lambda v: v / 2, 'exp': lambda v: v + 1},
        'dark_current': {0: lambda v: v * 1.5, 'fpn_factor': lambda v: 0.1 if not v else 0, 'shape': lambda v: [v[1], v[0]]},
        'rule07_dark_current': {0: lambda v: v + 20.0, 1: lambda v: v * 0.5, 2: lambda v: v * 2, 'fpn_factor': lambda v: v / 2},
        'read_noise': {1: lambda v: v * 0.5},
        'shot_noise': {'method': lambda v: 'gaussian' if v == 'poisson' else 'poisson'},
        'propagate_dft': {'pixelscale': lambda v: v * 1.25 if not isinstance(v, list) else [v[0], v[1] * 1.25], 'oversample': lambda v: v + 1,
                          'shape': lambda v: [v[0] + 1, v[1]] if isinstance(v, list) else v + 1},
        'propagate_fft': {'oversample': lambda v: v + 1},
        'dft2': {'unitary': lambda v: not v, 'shift': lambda v: [v[0] + 0.5, v[1]], 'offset': lambda v: [v[0], v[1] + 1]},
        'zernike': {1: lambda v: v + 1},
        'circle': {1: lambda v: v - 0.7, 'shift': lambda v: [v[0], v[1] + 1]},
        'hexagon': {1: lambda v: v - 0.5, 'rotate': lambda v: not v},
        'rectangle': {1: lambda v: v - 1, 2: lambda v: v + 1, 'angle': lambda v: v + 15},
        'spider': {1: lambda v: v + 0.5, 'angle': lambda v: v + 10},
        'mesh': {'angle': lambda v: v + 10, 'shift': lambda v: [v[0], v[1] + 1]},
        'gaussian2d': {1: lambda v: v * 1.3},
        'rescale': {1: lambda v: v * 0.8},
        'rebin': {1: lambda v: 1 if v != 1 else 2},
        'normalize_power': {'power': lambda v: v * 2},
        'pixel': {'oversample': lambda v: 3 - v if v in (1, 2) else 1},
        'jitter': {1: lambda v: v * 1.5},
        'smear': {1: lambda v: v + 1.0, 'angle': lambda v: v + 45},
        'charge_diffusion': {1: lambda v: v * 1.4},
        'adc': {'saturation_capacity': lambda v: 3000 if v is None else v - 500},
        'Plane.rescale': {1: lambda v: v * 1.25},
        'Spectrum.sample': {1: lambda v: [x + 3.0 for x in v]},
        'Spectrum.integrate': {'method': lambda v: 'simps' if v == 'trapz' else 'trapz'},
        'Spectrum.bin': {'interp_method': lambda v: 'simps' if v == 'trapz' else 'trapz', 'ends': lambda v: 'inside' if v == 'symmetric' else 'symmetric'},
        'planck_radiance': {1: lambda v: v + 500.0},
        'planck_exitance': {1: lambda v: v + 500.0},
        'Tilt.shift': {'wavelength': lambda v: v + 3e-8},
        'translation_defocus': {'translation': lambda v: v * 2, 'f_number': lambda v: v + 5},
        'zernike_coordinates': {'rotate': lambda v: v + 15},
        'collect_charge': {'waveunit': lambda v: v},
    }

    def _variant(self, rng, ev, n):
        if ev.get('fn') in ('call', 'callm') and self._dup_ok(ev):
            # generated calls: change one numeric keyword argument
            nums = sorted(k for k, v in ev.get('k', {}).items() if isinstance(v, (int, float)) and not isinstance(v, bool))
            if not nums:
                return None
            k = rng.choice(nums)
            d = copy.deepcopy(ev)
            v = d['k'][k]
            d['k'][k] = v + 1 if isinstance(v, int) else v * 1.5 + 0.25
            d['id'] = ev['id'] + 'v%d' % n
            d['t'] = dict({x: y for x, y in d.get('t', {}).items() if x != 'dup_of'}, fresh=True, variant=k)
            return d
        tab = self.VARIANTS.get(ev.get('fn'))
        if not tab or ev.get('inplace') or not self._dup_ok(ev):
            return None
        keys = [k for k in tab if (isinstance(k, int) and k < len(ev.get('a', [])) and not isinstance(ev['a'][k], str)) or
                (isinstance(k, str) and k in ev.get('k', {}) and not isinstance(ev['k'][k], str))]
        if not keys:
            return None
        k = rng.choice(sorted(keys, key=str))
        d = copy.deepcopy(ev)
        try:
            if isinstance(k, int):
                d['a'][k] = tab[k](d['a'][k])
            else:
                d['k'][k] = tab[k](d['k'][k])
        except Exception:
            return None
        d['id'] = ev['id'] + 'v%d' % n
        t = dict(d.get('t', {}))
        t.pop('dup_of', None)
        t['fresh'] = True
        t['variant'] = str(k)
        d['t'] = t
        return d

    @staticmethod
    def _fresh_ok(ev):
        """Pure calls (nothing documented as in-place, no unseeded consumer of the global RNG) qualify for C10.fresh."""
        if 'fn' not in ev or ev.get('inplace') or ev.get('t', {}).get('unseeded'):
            return False
        if ev['fn'] == 'cosmic_rays' and 'seed' not in ev.get('k', {}):
            return False
        return not (ev['fn'] in ('array', 'setattr', 'np.copy', 'np.add') or ev['fn'].startswith(('check.', 'h.')))

    def interleave(self, rng, progs):
        out = []
        pos = [0] * len(progs)
        done = [[] for _ in progs]
        env_rate = rng.choice([0.05, 0.12, 0.25])
        fresh_rate = rng.choice([0.0, 0.04, 0.1, 0.25])
        while True:
            runnable = [c for c in range(len(progs)) if pos[c] < len(progs[c])]
            if not runnable:
                break
            if rng.random() < env_rate:
                out.append(rng.choice([{'env': 'cache_clear'}, {'env': 'cache', 'maxsize': rng.choice([0, 1, 2, 32])},
                                       {'env': 'rng_draw', 'n': rng.randint(1, 7)}, {'env': 'rng_seed', 'seed': rng.randrange(2 ** 31)}]))
                continue
            c = rng.choice(runnable)
            ev = progs[c][pos[c]]
            out.append(ev)
            pos[c] += 1
            if fresh_rate and self._fresh_ok(ev) and rng.random() < fresh_rate:
                ev.setdefault('t', {})['fresh'] = True
            if rng.random() < 0.12:
                v = self._variant(rng, ev, len(out))
                if v is not None:
                    out.append(v)
            if self._fresh_ok(ev) and ev.get('id') and not ev.get('t', {}).get('dup_of') and rng.random() < 0.06:
                # the caller edits, in place, the array it was just handed (psf /= psf.max()) and asks again -- also on its private objects
                out.append({'env': 'perturb', 'c': c, 'target': '@' + ev['id'], 'seed': rng.randrange(10 ** 6), 'unshared': True})
                d = copy.deepcopy(ev)
                d.setdefault('t', {})['dup_of'] = ev['id']
                d['t'].pop('fresh', None)
                d['id'] = ev['id'] + 'r%d' % len(out)
                out.append(d)
            if self._dup_ok(ev):
                done[c].append(ev)
            if done[c] and rng.random() < 0.08:
                src = rng.choice(done[c])
                if rng.random() < 0.4:
                    out.append({'env': 'perturb', 'c': c, 'target': '@' + src['id'], 'seed': rng.randrange(10 ** 6), 'unshared': True})
                d = copy.deepcopy(src)
                d.setdefault('t', {})['dup_of'] = d['id']
                d['id'] = d['id'] + 'd%d' % len(out)
                out.append(d)
        return out

    # ---------------------------------------------------------------- prelude
    def prelude(self, verif_seed):
        import random
        runs = []
        for j, frozen in enumerate([False, True]):
            rng = random.Random(verif_seed * 104729 + j)
            world = self.base_world(rng)
            world['K'] = 2
            world['cache'] = 1
            world['frozen'] = frozen
            events = self.setup_events(world, rng)
            shared_arrays = [e['id'] for e in events if e['fn'] == 'array']
            progs = []
            for c in range(2):
                table = self.fragments(world, rng, c)
                prog = []
                for f, _ in table:
                    prog += f()
                progs.append(prog)
            if frozen:
                events.append({'env': 'freeze', 'targets': ['@' + a for a in shared_arrays]})
            # strict alternation with an RNG fault before every seeded call
            order = []
            i0 = i1 = 0
            while i0 < len(progs[0]) or i1 < len(progs[1]):
                for c, idx in ((0, i0), (1, i1)):
                    if idx < len(progs[c]):
                        ev = progs[c][idx]
                        if 'fn' not in ev:
                            order.append(ev)
                            continue
                        if ev.get('t', {}).get('seeded'):
                            order.append({'env': 'rng_seed', 'seed': 12345 + idx})
                        order.append(ev)
                        if self._fresh_ok(ev) and idx % 3 == 0:
                            ev.setdefault('t', {})['fresh'] = True
                        v = self._variant(rng, ev, len(order)) if idx % 2 == 0 else None
                        if v is not None:
                            order.append(v)
                        if self._dup_ok(ev) and idx % 5 == 0:
                            d = copy.deepcopy(ev)
                            d.setdefault('t', {})['dup_of'] = d['id']
                            d['id'] = d['id'] + 'dup'
                            order.append(d)
                i0 += 1
                i1 += 1
            events += order
            runs.append({'scenario': self.name, 'world': world, 'events': events, 'run_index': -100 + j, 'seed': 0})
        return runs

    # ---------------------------------------------------------------- execution
    def make_fns(self):
        fns = dict(self.fns)
        fns['check.same_image'] = check_same_image
        # premise, from the live objects: the used plane and the fresh plane are in the same public state (a Plane that copies
        # its inputs does not see the caller's later write, and then the two planes legitimately differ)
        fns['check.same_state'] = lambda L, a, b, pa=None, pb=None: {'same': Digester(L)(a) == Digester(L)(b),
                                                                     'premise': pa is None or Digester(L)(pa) == Digester(L)(pb)}
        from .optics import h_refit
        fns['h.refit'] = h_refit

        def h_refill(L, buf, new):
            buf[...] = new           # the caller overwrites its own buffer in place
            return buf
        fns['h.refill'] = h_refill
        return fns

    def execute(self, L, run):
        fns = self.make_fns()
        hooks = PurityHooks()
        it = Interp(L, run['world'], fns, hooks)
        # instrument the cache for the eviction / sharing probes
        seen_shapes = {}
        it.run_events = run['events']
        self._run_with_probes(it, run, seen_shapes)
        extra = []
        states = set()
        for (i, c, fn, brief) in it.history:
            states.add('%s>%s' % (fn, brief.split(':')[0] if brief.startswith('ok') else brief))
        if run['world'].get('frozen') and it.faults.get('freeze'):
            it.probe('frozen_run')
        # C10.path verdicts
        for (i, c, fn, brief) in it.history:
            pass
        # C10.serial
        callers = callers_of(run['events'])
        inter = {}
        for (i, c, fn, brief) in it.history:
            if i in hooks.skip_serial:
                brief = 'frozen-benign'
            inter.setdefault(c, []).append((fn, brief))
        if len(callers) > 1 or it.faults:
            for c in callers:
                solo = Interp(L, dict(run['world'], cache=32), fns, None)
                sevents = solo_events(run['events'], c, keep_env=('freeze',))
                solo.run(sevents)
                s = [(fn, brief) for (i, cc, fn, brief) in solo.history if cc == c]
                mine = inter.get(c, [])
                it.probe('check:serial')
                if len(s) != len(mine):
                    extra.append(Violation('C10.serial', {'fn': 'length'}, 'caller %d executed %d steps solo, %d interleaved'
                                           % (c, len(s), len(mine))).to_json())
                    continue
                for (fa, ba), (fb, bb) in zip(s, mine):
                    if bb == 'frozen-benign':
                        continue
                    if ba != bb:
                        extra.append(Violation('C10.serial', {'fn': fa},
                                               'caller %d: %s gave %s solo but %s when interleaved with other callers/faults'
                                               % (c, fa, ba, bb)).to_json())
                        break
            if len(callers) > 1:
                it.fault('interleave')
        return self.result(it, extra, states)

    def _run_with_probes(self, it, run, seen_shapes):
        """Run the events; between steps watch the cache counters (probes only)."""
        L = it.L
        if it._coords_wrapped is None:
            # the tree under test has no coordinate cache to size or evict (a refactor may build its coordinates differently):
            # the cache knob is a no-op there and its must-hit probe is vacuously met
            it.probe('cache_seam_absent')
            it.probe('cache_eviction')
        last_rng_fault = [False]
        orig_do_env = it.do_env
        orig_step = it.step

        def do_env(i, ev):
            orig_do_env(i, ev)
            if ev['env'] in ('rng_draw', 'rng_seed'):
                last_rng_fault[0] = True

        def step(i, ev):
            ci0 = it.cache_info()
            if ev['fn'] in ('dft2', 'idft2', 'propagate_dft') and last_rng_fault[0] is not None:
                pass
            if ev.get('t', {}).get('seeded') and last_rng_fault[0]:
                it.probe('seeded_after_rng_fault')
            last_rng_fault[0] = False
            out = orig_step(i, ev)
            ci1 = it.cache_info()
            if ci0 is not None and ci1 is not None and ci1.maxsize and ci1.misses > ci0.misses and ci0.currsize == ci0.maxsize:
                it.probe('cache_eviction')
            if ev['fn'] == 'dft2' and out.ok:
                key = (tuple(np.asarray(it.resolve(ev['a'][0])).shape), tuple(ev['k'].get('shape', ())))
                who = seen_shapes.setdefault(key, set())
                who.add(ev.get('c'))
                if len(who) > 1:
                    it.probe('shared_dft_shape')
            if ev['fn'] == 'check.same_state' and out.ok:
                it.probe('used_vs_fresh')       # reached (whether or not this implementation's planes view the caller's arrays)
            if ev['fn'] == 'check.same_state' and out.ok and not out.value.get('premise', True):
                it.probe('used_vs_fresh_premise_failed')
            elif ev['fn'] == 'check.same_state' and out.ok:
                it.probe('check:same_state')
                if not out.value['same']:
                    it.violate('C10.path', {'what': 'used-plane-vs-fresh-plane'},
                               'a plane used before its arrays were updated multiplies differently from a fresh plane in the same state', i)
            if ev['fn'] == 'check.same_image':
                if out.ok:
                    it.probe('path_pair')
                    it.probe('check:path')
                    if not out.value['premise']:
                        it.probe('path_bookkeeping_differs')     # diagnostic: OPD + recorded tilt of the two planes differ
                    if not out.value['ok']:
                        it.violate('C10.path', {'what': 'refit-after-update'},
                                   'the same OPD imaged after construct-then-fit and after fit / update / fit gives different fields: %s'
                                   % out.value['detail'], i)
            return out

        it.do_env = do_env
        it.step = step
        it.run(run['events'])
