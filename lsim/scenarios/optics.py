"""The optics session (DESIGN.md 7.6, 7.8): C07 (views agree, planes are pointwise phasors) and
C04 (tilt carried as metadata is optically identical to tilt in the OPD).

Wavefronts are reached by programs (chains of planes and propagations); after every step the
public views are read and compared with the dense "infinite zero-padded plane" model.  For C04
every tilt carrier (Tilt planes in any order, Wavefront(tilt=), fit_tilt -- also re-fitted after an
OPD update --, first-order DispersiveTilt) is propagated by the real propagate_dft and compared
with the eager twin (all tilt as an OPD ramp) on the samples both evaluate.
"""
import copy
import itertools

import numpy as np
import scipy.integrate

from ..core import Interp, Hooks, make_array, dirty_fill, well_posed
from ..models import dense
from .base import Scenario
from .purity import effective_optics

RTOL = 1e-8


# --------------------------------------------------------------------------- harness-side helpers

def h_global_mask(L, m):
    m = np.asarray(m, dtype=float)
    return m if m.ndim == 2 else (np.sum(m, axis=0) > 0).astype(float)


def h_segment_ramp(L, m, tilts, dx):
    """sum_n mask_n * (tx_n * r * dx0 - ty_n * c * dx1); one (tx, ty) per segment, or one for all."""
    m = np.asarray(m, dtype=float)
    segs = [m] if m.ndim == 2 else list(m)
    dx = np.broadcast_to(np.asarray(dx, dtype=float), (2,))
    out = np.zeros(segs[0].shape)
    for n, s in enumerate(segs):
        tx, ty = tilts[n % len(tilts)]
        out += (s > 0) * dense.ramp(s.shape, tx, ty, dx)
    return out


from ..ops import _churn_views as ops_churn_views      # noqa: E402


def h_readonly(L, a):
    """The caller's array as it comes from a memory-mapped file or np.broadcast_to: a view that cannot be written."""
    v = np.asarray(a).view()
    v.flags.writeable = False
    return v


def rel_err(a, b, scale):
    if a.size == 0:
        return 0.0
    return float(np.max(np.abs(a - b)) / max(scale, 1e-300))


def check_views(L, w, acc_shape=None, fill='garbage', seed=0, weight=1.0):
    """field / intensity / insert of one wavefront against the dense model of its (documented) fields."""
    out = {'premise': True}
    shape = tuple(int(x) for x in w.shape)
    if len(shape) != 2 or not w.data or any(np.ndim(f.data) != 2 for f in w.data):
        out['premise'] = False
        return out
    fields = dense.wavefront_fields(w)
    total = dense.embed(fields, shape)
    scale = max(np.max(np.abs(total)), 1e-300)
    f = w.field
    inten = w.intensity
    out['field_ok'] = f.shape == shape and rel_err(f, total, scale) <= 1e-12
    out['views_ok'] = inten.shape == shape and rel_err(inten, np.abs(f) ** 2, scale ** 2) <= 1e-12
    out['views_detail'] = 'max |intensity - |field|^2| / max|field|^2 = %.3g' % rel_err(inten, np.abs(f) ** 2, scale ** 2)
    # the views are the caller's own arrays: after it has written into them (psf /= psf.max(), img[...] = 0) a second reading
    # still shows the wavefront
    keep_f, keep_i = f.copy(), inten.copy()
    if f.flags.writeable and inten.flags.writeable and f.size:
        f[...] = -3.0 + 2.0j
        inten *= 0.25
        inten += 11.0
        f2, i2 = w.field, w.intensity
        out['reread_ok'] = bool(f2.shape == keep_f.shape and np.array_equal(f2, keep_f) and i2.shape == keep_i.shape and np.array_equal(i2, keep_i))
    f, inten = keep_f, keep_i
    # overlap statistics (state measure)
    _, all_m, any_m = dense.coverage(w)
    cover = np.zeros(shape, dtype=int)
    for data, off in fields:
        win = dense.field_window(data.shape, off, shape)
        if win is not None:
            cover[win[0]] += 1
    out['nfields'] = len(fields)
    out['overlap'] = bool(np.any(cover > 1))
    # two fields with disjoint windows both overlapped by a later third (state measure / must-hit probe)
    boxes = [dense.field_window(d.shape, o, shape) for d, o in fields]
    def _ov(a, b):
        return a is not None and b is not None and all(a[0][ax].start < b[0][ax].stop and b[0][ax].start < a[0][ax].stop for ax in (0, 1))
    out['bridged'] = any(not _ov(boxes[i], boxes[j]) and any(_ov(boxes[i], boxes[l]) and _ov(boxes[j], boxes[l]) for l in range(j + 1, len(boxes)))
                         for i in range(len(boxes)) for j in range(i + 1, len(boxes)))
    # accumulate into a caller buffer of arbitrary shape and prior content
    acc_shape = tuple(acc_shape) if acc_shape is not None else shape
    acc = np.zeros(acc_shape)
    dirty_fill(acc, fill, seed) if fill != 'zeros' else None
    if fill in ('nan', 'inf'):
        acc[...] = np.where(np.isfinite(acc), acc, 3.25)     # NaN + x is NaN by arithmetic; use loud finite garbage instead
    before = acc.copy()
    ret = w.insert(acc, weight)
    expect = before + weight * np.abs(dense.embed(fields, acc_shape)) ** 2
    sc = max(np.max(np.abs(expect)), 1e-300)
    out['insert_same_object'] = ret is acc
    out['insert_ok'] = rel_err(acc, expect, sc) <= 1e-12
    # ... and the wavefront is what it was: a second accumulation (another weight, a clean buffer) and the views after it
    acc2 = np.zeros(shape)
    w.insert(acc2, 0.5)
    out['second_insert_ok'] = rel_err(acc2, 0.5 * np.abs(total) ** 2, scale ** 2) <= 1e-12 and rel_err(w.intensity, np.abs(total) ** 2, scale ** 2) <= 1e-12
    out['insert_detail'] = 'max |got - (before + w*intensity)| / scale = %.3g (acc %s, wavefront %s, weight %r)' % (
        rel_err(acc, expect, sc), acc_shape, shape, weight)
    clipped = []
    for data, off in fields:
        for ax in (0, 1):
            lo = acc_shape[ax] // 2 - data.shape[ax] // 2 + off[ax]
            if lo < 0:
                clipped.append('lo%d' % ax)
            if lo + data.shape[ax] > acc_shape[ax]:
                clipped.append('hi%d' % ax)
        if dense.field_window(data.shape, off, acc_shape) is None:
            clipped.append('outside')
    out['clipped'] = sorted(set(clipped))
    return out


def check_phasor(L, w, planes, wavelength):
    """Before any propagation: .field == product of the planes' dense phasors (centre aligned)."""
    out = {'premise': True}
    shape = tuple(int(x) for x in w.shape)
    if len(shape) != 2:
        out['premise'] = False
        return out
    model = np.ones(shape, dtype=complex)
    have_array = False
    for p in planes:
        mask = np.asarray(p.mask, dtype=float)
        amp = np.asarray(p.amplitude, dtype=float)
        opd = np.asarray(p.opd, dtype=float)
        if mask.ndim == 0 and amp.ndim == 0 and opd.ndim == 0:
            model = model * (float(amp) * (1.0 if float(mask) != 0 else 0.0) * np.exp(2j * np.pi * float(opd) / wavelength))
            continue
        pshape = mask.shape[-2:] if mask.ndim >= 2 else (amp.shape if amp.ndim == 2 else opd.shape)
        g = (np.sum(mask, axis=0) if mask.ndim == 3 else mask) if mask.ndim >= 2 else np.ones(pshape) * (1.0 if float(mask) != 0 else 0.0)
        ph = np.broadcast_to(amp, pshape) * (g != 0) * np.exp(2j * np.pi * np.broadcast_to(opd, pshape) / wavelength)
        model = model * dense.embed([(ph, [0, 0])], shape)
        have_array = True
    if not have_array:
        out['premise'] = False
        return out
    f = w.field
    scale = max(np.max(np.abs(model)), 1e-300)
    out['ok'] = f.shape == shape and rel_err(f, model, scale) <= 1e-12
    out['detail'] = 'max |field - prod(amplitude*mask*exp(2 pi i OPD/lambda))| / scale = %.3g over %d planes' % (rel_err(f, model, scale), len(planes))
    return out


def check_equiv(L, wa, wb, pre_a=None, pre_b=None, rtol=None):
    """Two propagated wavefronts agree on every sample that ALL fields of both evaluate.  A field of the
    input wavefront whose window missed the output altogether was evaluated nowhere."""
    out = {'premise': True}
    if tuple(wa.shape) != tuple(wb.shape):
        out['premise'] = False
        return out
    fa, alla, anya = dense.coverage(wa)
    fb, allb, anyb = dense.coverage(wb)
    common = alla & allb
    out['dropped'] = False
    for img, pre in ((wa, pre_a), (wb, pre_b)):
        if pre is not None and len(img.data) < len(pre.data):
            common = np.zeros_like(common)
            out['dropped'] = True
    out['common'] = int(common.sum())
    out['empty_a'] = not wa.data
    ref = max(np.max(np.abs(fb)) if fb.size else 0.0, np.max(np.abs(fa)) if fa.size else 0.0, 1e-300)
    out['ok'] = True
    if common.any():
        err = float(np.max(np.abs(fa[common] - fb[common])))
        out['ok'] = err <= (RTOL if rtol is None else rtol) * ref
        out['detail'] = 'max |carrier - eager twin| = %.3g on %d common samples (max |field| %.3g)' % (err, common.sum(), ref)
    # exactly zero outside the union of its windows
    fpub = wa.field
    out['zero_outside'] = bool(np.all(fpub[~anya] == 0))
    return out


def tilt_args(t):
    """constructor arguments (x, y) of a Tilt element, through its public shift()"""
    sx, sy = t.shift(xs=0, ys=0, z=1.0, wavelength=1e-6)
    return -sy, -sx


def check_fit(L, p, q):
    """fit_tilt removed exactly the least-squares tip/tilt (not the piston) per segment and recorded it."""
    out = {'premise': True}
    mask = np.asarray(p.mask, dtype=float)
    segs = [mask] if mask.ndim == 2 else list(mask)
    if mask.ndim < 2 or np.asarray(p.opd).ndim != 2:
        out['premise'] = False
        return out
    if not all(well_posed(s_ > 0) for s_ in segs) or (len(segs) > 1 and np.max(np.sum(np.asarray(segs) > 0, axis=0)) > 1):
        # premise from the live plane (its masks may come out of lentil's own rescale): every segment has >= 3 non-collinear pixels
        # and segments do not overlap -- otherwise the least-squares tilt of a segment is not unique and any answer is right
        out['premise'] = False
        out['ill_posed'] = True
        return out
    if len(q.tilt) < len(p.tilt) + len(segs):
        out['premise'] = False
        out['recorded'] = False
        return out
    out['recorded'] = True
    dx = p.pixelscale
    shape = segs[0].shape
    r = (np.arange(shape[0]) - shape[0] // 2)[:, None] * dx[0] * np.ones(shape)
    c = (np.arange(shape[1]) - shape[1] // 2)[None, :] * dx[1] * np.ones(shape)
    opd0 = np.asarray(p.opd, dtype=float)
    opd1 = np.asarray(q.opd, dtype=float)
    scale = max(np.max(np.abs(opd0)), 1e-300)
    ok_zero = ok_piston = ok_sum = True
    detail = ''
    ea, eb = effective_optics(L, p), effective_optics(L, q)
    for n, m in enumerate(segs):
        sel = m > 0
        B = np.stack([np.ones(sel.sum()), r[sel], -c[sel]], axis=1)
        t0 = np.linalg.lstsq(B, opd0[sel], rcond=None)[0]
        t1 = np.linalg.lstsq(B, opd1[sel], rcond=None)[0]
        ext = max(np.max(np.abs(B[:, 1])), np.max(np.abs(B[:, 2])), 1e-300)
        if max(abs(t1[1]), abs(t1[2])) * ext > 1e-9 * scale:
            ok_zero = False
            detail += ' seg%d residual tilt %g,%g;' % (n, t1[1], t1[2])
        if abs(t1[0] - t0[0]) > 1e-9 * scale:
            ok_piston = False
            detail += ' seg%d piston %g -> %g;' % (n, t0[0], t1[0])
        d = np.max(np.abs(ea[n][2] - eb[n][2])) if True else 0
        if d > 1e-9 * scale:
            ok_sum = False
            detail += ' seg%d OPD+recorded tilt differs from the original by %g;' % (n, d)
    out.update(zero=ok_zero, piston=ok_piston, sum=ok_sum, detail=detail)
    return out


def expected_shift(elements, z, wavelength, du, oversample):
    """Statement: displacement = z*angle/du*oversample output samples, +x tilt towards increasing row,
    +y tilt towards decreasing column, using the pixel size of that axis; elements add.
    elements: ('tilt', tx, ty) or ('disp', trace[2], dispersion[2])."""
    du = np.broadcast_to(np.asarray(du, dtype=float), (2,))
    r = c = 0.0
    for e in elements:
        if e[0] == 'tilt':
            r += z * e[1] / du[0] * oversample
            c -= z * e[2] / du[1] * oversample
        else:
            x, y, _ = dispersive_xy(e[1], e[2], wavelength)
            # a dispersive element displaces the image by (x, y) metres in the focal plane: x along columns, y along -rows
            r -= y / du[0] * oversample
            c += x / du[1] * oversample
    return r, c


def check_shift(L, w, elements, z, du, oversample):
    """Field.shift of every field == the statement's displacement for the listed elements."""
    out = {'premise': bool(w.data), 'ok': True, 'detail': ''}
    if not out['premise']:
        return out
    er, ec = expected_shift(elements, z, w.wavelength, du, oversample)
    for f in w.data:
        gr, gc = f.shift(z=z, wavelength=w.wavelength, pixelscale=du, oversample=oversample, indexing='ij')
        high = any(e[0] == 'disp' and (len(e[1]) > 2 or len(e[2]) > 2) for e in elements)      # numerically solved by lentil
        tol = (1e-6 if high else 1e-9) * max(abs(er), abs(ec), 1e-3)
        if abs(gr - er) > tol or abs(gc - ec) > tol:
            out['ok'] = False
            out['detail'] = 'Field.shift gives (row %.9g, col %.9g) samples, statement gives (row %.9g, col %.9g)' % (gr, gc, er, ec)
            out['axis'] = 'row' if abs(gr - er) > tol else 'col'
    out['expected'] = [er, ec]
    return out


def check_window(L, wi, expected, shape_out, prop_out):
    """The evaluated window of a single-field image sits at fix(expected shift) when it fits in the output."""
    out = {'premise': False}
    if len(wi.data) != 1:
        return out
    er, ec = expected
    for e in (er, ec):
        if abs(e) > 0.5 and abs(e - round(e)) < 1e-6:
            return out          # fix() would hinge on rounding
    fr, fc = np.fix(er), np.fix(ec)
    if abs(fr) + prop_out[0] / 2.0 + 1 > shape_out[0] / 2.0 or abs(fc) + prop_out[1] / 2.0 + 1 > shape_out[1] / 2.0:
        return out          # clipped by the output: placement is the intersection, not the window
    out['premise'] = True
    off = [int(x) for x in wi.data[0].offset]
    out['ok'] = off == [int(fr), int(fc)] and tuple(wi.data[0].shape) == tuple(int(x) for x in prop_out)
    out['detail'] = 'window offset %s shape %s, expected offset %s shape %s' % (off, tuple(wi.data[0].shape), [int(fr), int(fc)], tuple(prop_out))
    return out


def check_trace(L, d, wavelength):
    """(x, y) of a dispersive element lies on its trace at the arc length its dispersion maps to the wavelength."""
    out = {'premise': True}
    x, y = d.shift(wavelength=wavelength, xs=0.0, ys=0.0)
    x, y = float(np.ravel(x)[0]), float(np.ravel(y)[0])
    trace = np.asarray(d.trace, dtype=float)
    disp = np.asarray(d.dispersion, dtype=float)
    out['order'] = [int(trace.size - 1), int(disp.size - 1)]
    ytr = float(np.polyval(trace, x))
    der = np.polyder(trace)
    arc = scipy.integrate.quad(lambda t: np.sqrt(1 + np.polyval(der, t) ** 2), 0.0, x)[0]
    lam = float(np.polyval(disp, arc))
    span = abs(wavelength - disp[-1]) + 1e-300
    out['on_trace'] = abs(y - ytr) <= 1e-9 * max(abs(ytr), abs(x), 1e-12)
    out['arc_ok'] = abs(lam - wavelength) <= 1e-6 * span
    out['side'] = 'blue' if (wavelength - disp[-1]) < 0 else 'red'
    out['negative_arc'] = bool(arc < 0)
    out['detail'] = 'x=%.6g y=%.6g trace(x)=%.6g; dispersion(arc length %.6g)=%.9g, wavelength %.9g' % (x, y, ytr, arc, lam, wavelength)
    return out


def h_layout(L, a, layout):
    """The same values in another memory layout (Fortran order, a transposed view, a strided view of a larger map,
    a crop of a larger map): array contents a caller may legitimately hand over."""
    a = np.asarray(a)
    if layout == 'F':
        return np.asfortranarray(a)
    if layout == 'T':
        return np.ascontiguousarray(a.T).T
    if layout == 'strided':
        big = np.zeros(tuple(2 * n for n in a.shape), dtype=a.dtype)
        v = big[tuple(slice(None, None, 2) for _ in a.shape)]
        v[...] = a
        return v
    if layout == 'crop':
        big = np.full(tuple(n + 3 for n in a.shape), 7.0, dtype=a.dtype)
        v = big[tuple(slice(1, 1 + n) for n in a.shape)]
        v[...] = a
        return v
    return np.array(a, copy=True)


def dispersive_xy(trace, dispersion, wavelength):
    """Independent solution of the statement's clause: arc length d with dispersion(d) = wavelength (the root nearest
    the reference, d = 0), then the point of the trace polynomial at signed arc length d from x = 0."""
    import scipy.optimize
    trace = np.asarray(trace, dtype=float)
    disp = np.asarray(dispersion, dtype=float)
    poly = disp.copy()
    poly[-1] -= wavelength
    poly = np.trim_zeros(poly, 'f')
    roots = np.roots(poly)
    real = roots[np.abs(roots.imag) <= 1e-9 * np.maximum(1.0, np.abs(roots.real))].real
    d = float(real[np.argmin(np.abs(real))])
    der = np.polyder(trace)

    def arc(x):
        return scipy.integrate.quad(lambda t: np.sqrt(1 + np.polyval(der, t) ** 2), 0.0, x)[0]
    if d == 0:
        x = 0.0
    else:
        lo, hi = (0.0, d) if d > 0 else (d, 0.0)        # |x| <= |arc length|
        x = scipy.optimize.brentq(lambda t: arc(t) - d, lo * 1.0000001, hi * 1.0000001, xtol=1e-18, rtol=1e-14)
    return float(x), float(np.polyval(trace, x)), d


def dispersion_well_posed(dispersion, wavelength):
    """The wavelength is reached at a real arc length, and that root is well separated from every other one (otherwise
    "the arc length that the dispersion polynomial maps to the wavelength" is not unique and any solver's answer is right)."""
    poly = np.asarray(dispersion, dtype=float).copy()
    poly[-1] -= wavelength
    poly = np.trim_zeros(poly, 'f')
    if poly.size < 2:
        return False
    roots = np.roots(poly)
    real = np.sort(np.abs(roots[np.abs(roots.imag) <= 1e-9 * np.maximum(1.0, np.abs(roots.real))].real))
    if real.size == 0:
        return False
    others = np.sort(np.abs(roots))
    return bool(others.size == 1 or others[1] >= 5 * real[0])


def h_dispersive_ramp(L, m, trace, dispersion, wavelength, z, dx):
    """OPD ramp (on the global mask m) equivalent to a dispersive element: displacement (X, Y) metres in the focal
    plane is what Tilt(x=-Y/z, y=-X/z) gives."""
    X, Y, _ = dispersive_xy(trace, dispersion, wavelength)
    return h_segment_ramp(L, m, [[-Y / z, -X / z]], dx)


def h_add_ramp(L, plane, tx, ty):
    """The owner of a (private) plane adds tilt to its OPD on the plane's own grid, through the documented attribute."""
    plane.opd = np.asarray(plane.opd, dtype=float) + dense.ramp(tuple(plane.shape), tx, ty, plane.pixelscale)
    return plane


def h_reversed_fields(L, w):
    """The same wavefront with its fields listed in the opposite order (public constructor + public attribute): a coherent sum
    does not depend on the order of its terms."""
    out = L.Wavefront.empty(wavelength=w.wavelength, pixelscale=None if w.pixelscale is None else tuple(w.pixelscale),
                            focal_length=w.focal_length, shape=w.shape, ptype=w.ptype)
    out.data = list(w.data)[::-1]
    return out


def check_same_fields(L, wa, wb):
    """Two propagations of the same set of fields (listed in different orders): the same windows are evaluated, with the same values."""
    out = {'premise': True}
    fa = sorted((tuple(int(x) for x in f.offset), tuple(f.shape)) for f in wa.data)
    fb = sorted((tuple(int(x) for x in f.offset), tuple(f.shape)) for f in wb.data)
    out['same_windows'] = fa == fb
    out['nfields'] = [len(wa.data), len(wb.data)]
    A, B = wa.field, wb.field
    ref = max(float(np.max(np.abs(B))) if B.size else 0.0, 1e-300)
    out['ok'] = A.shape == B.shape and (A.size == 0 or float(np.max(np.abs(A - B))) <= 1e-9 * ref)
    out['detail'] = 'fields evaluated: %s vs %s in the other order; max |diff| %.3g (max |field| %.3g)' % (
        len(wa.data), len(wb.data), float(np.max(np.abs(A - B))) if A.shape == B.shape and A.size else float('nan'), ref)
    return out


def h_refit(L, plane, add_opd, how='setter'):
    """History carrier, one atomic step for the minimiser: fit in place, update the OPD, fit in place again.  The update goes
    through the documented attribute (how='setter') or is written into the array the plane holds (how='inplace')."""
    plane.fit_tilt(inplace=True)
    if how == 'inplace' and isinstance(plane.opd, np.ndarray) and plane.opd.flags.writeable and plane.opd.dtype.kind == 'f':
        np.add(plane.opd, np.asarray(add_opd), out=plane.opd)
    else:
        plane.opd = plane.opd + np.asarray(add_opd)
    plane.fit_tilt(inplace=True)
    return plane


def check_refit(L, plane, add_opd, how='inplace'):
    """One atomic step: fit in place, the owner adds tilt to the OPD (through the attribute, or by writing into the array the plane
    holds), fit in place again -- and the second fit is judged like any fit: it removes exactly the least-squares tilt now present."""
    plane.fit_tilt(inplace=True)
    if how == 'inplace' and isinstance(plane.opd, np.ndarray) and plane.opd.flags.writeable and plane.opd.dtype.kind == 'f':
        np.add(plane.opd, np.asarray(add_opd), out=plane.opd)
    else:
        plane.opd = plane.opd + np.asarray(add_opd)
    before = plane.copy()
    plane.fit_tilt(inplace=True)
    out = check_fit(L, before, plane)
    out['how'] = how
    return out


def check_tilt_kept(L, q, r):
    """rescale / resample / copy change a plane's sampling, not the angles it has on record: r carries the tilt q carried."""
    out = {'premise': len(q.tilt) > 0}
    ta = [tilt_args(t) for t in q.tilt]
    tb = [tilt_args(t) for t in r.tilt]
    scale = max([abs(v) for t in ta for v in t] + [1e-300])
    out['ok'] = len(ta) == len(tb) and all(abs(a[0] - b[0]) <= 1e-12 * scale and abs(a[1] - b[1]) <= 1e-12 * scale for a, b in zip(ta, tb))
    out['detail'] = 'recorded (x, y) angles before %s, after %s' % (ta[:3], tb[:3])
    return out


HELPERS = {
    'h.refit': h_refit,
    'h.refill': lambda L, buf, new: buf.__setitem__(Ellipsis, np.asarray(new, dtype=buf.dtype)),
    'h.reversed_fields': h_reversed_fields,
    'check.same_fields': check_same_fields,
    'check.tilt_kept': check_tilt_kept,
    'check.refit': check_refit,
    'h.add_ramp': h_add_ramp,
    'h.readonly': h_readonly,
    'h.layout': h_layout,
    'h.dispersive_ramp': h_dispersive_ramp,
    'h.global_mask': h_global_mask,
    'h.segment_ramp': h_segment_ramp,
    'check.views': check_views,
    'churn.views': ops_churn_views,
    'check.phasor': check_phasor,
    'check.equiv': check_equiv,
    'check.fit': check_fit,
    'check.shift': check_shift,
    'check.window': check_window,
    'check.trace': check_trace,
}


# --------------------------------------------------------------------------- shared generation

class Builder:
    """Event-list builder for one caller."""

    def __init__(self, rng, c=0, prefix=None):
        self.rng = rng
        self.c = c
        self.pre = prefix if prefix is not None else 'c%d_' % c
        self.n = 0
        self.events = []

    def nid(self, tag='r'):
        self.n += 1
        return '%s%s%d' % (self.pre, tag, self.n)

    def E(self, fn, a=None, k=None, id=None, tag='r', **extra):
        e = {'c': self.c, 'fn': fn}
        if a is not None:
            e['a'] = a
        if k is not None:
            e['k'] = k
        e['id'] = id or self.nid(tag)
        e.update(extra)
        self.events.append(e)
        return e['id']

    def A(self, recipe, tag='a'):
        i = self.nid(tag)
        self.events.append({'c': self.c, 'fn': 'array', 'id': i, 'recipe': recipe})
        return i

    def sd(self):
        return self.rng.randrange(10 ** 6)


def pupil_arrays(b, sname, S, seg=None, offcentre=True):
    """amplitude, opd, mask (2-D or 3-D) recipes for a pupil of shape S; returns ids and #segments."""
    rng = b.rng
    rad = min(S) / 2.0 + rng.choice([-0.4, 0.0, 0.4])
    amp = b.A({'kind': 'uniform', 'shape': sname, 'lo': 0.4, 'hi': 1.0, 'seed': b.sd(), 'layout': rng.choice(['C', 'C', 'F', 'strided'])})
    opd = b.A({'kind': 'normal', 'shape': sname, 'sigma': rng.choice([1e-8, 4e-8]), 'seed': b.sd()}, 'o')
    seg = rng.random() < 0.4 if seg is None else seg
    dr = rng.choice([0, 0, 1, -1]) if offcentre else 0
    dc = rng.choice([0, 0, 1, -1]) if offcentre else 0
    if seg:
        k = rng.randint(2, 4)
        m = b.A({'kind': 'segments', 'shape': sname, 'k': k, 'support': rng.choice(['disk', 'full', 'rect']), 'radius': rad,
                 'half': [max(1, S[0] // 2 - 1), max(1, S[1] // 2 - 1)], 'dr': dr, 'dc': dc, 'seed': b.sd()}, 'm')
    else:
        k = 1
        m = b.A({'kind': rng.choice(['disk', 'rect', 'blob']), 'shape': sname, 'radius': rad, 'p': 0.7,
                 'half': [max(1, S[0] // 2 - 1), max(1, S[1] // 2 - 1)], 'dr': dr, 'dc': dc, 'seed': b.sd()}, 'm')
    return amp, opd, m, k


# --------------------------------------------------------------------------- C07

class ViewsHooks(Hooks):
    prefix = 'C07'
    def __init__(self):
        self.pre = None
        # lentil documents one-element fields as broadcastable scalars ("infinite constants"); a wavefront that has
        # (or descends from one that had) a 1x1 array field is not a state the dense model describes: not judged
        self.tainted = set()

    def _taint(self, it, ev, out):
        src = [r for r in it.event_refs(ev) if r in self.tainted]
        val = out.value if out.ok else None
        one = isinstance(val, it.L.Wavefront) and any(np.ndim(f.data) == 2 and f.data.size == 1 for f in val.data)
        if not one and self.pre is not None:
            # the same convention on the plane's side: a plane whose arrays hold a single element acts as a scalar plane
            pl = self.pre[0]
            one = any(np.ndim(x) >= 2 and np.size(x) == 1 for x in (pl.amplitude, pl.opd, pl.mask))
            mk = np.asarray(pl.mask)
            if not one and mk.ndim >= 2:
                # ... or one of whose segments covers a single sample (its cropped phasor is a one-element array): masks that
                # come out of lentil's own rescale, or out of the minimiser's shape shrinking, can degenerate that way
                for seg in (mk if mk.ndim == 3 else [mk]):
                    if seg.any() and np.any(seg, axis=1).sum() == 1 and np.any(seg, axis=0).sum() == 1:
                        one = True
        if ev.get('id') and (src or one):
            self.tainted.add(ev['id'])
            it.probe('one_element_field')

    def before(self, it, i, ev):
        self.pre = None
        self.pre_attr = None
        fn = ev['fn']
        t_ = ev.get('t', {})
        if fn == 'setattr' and t_.get('edit_of_derived') and t_['edit_of_derived'][1:] in it.store:
            src_ = it.store[t_['edit_of_derived'][1:]]
            self.pre_attr = ('derived', src_, it.dig(src_))
        elif fn == 'setattr' and t_.get('assignment_may_be_refused'):
            tgt_ = it.resolve(ev['a'][0])
            self.pre_attr = ('refusable', tgt_, it.dig(tgt_))
        if fn in ('Plane.multiply', 'w*p', 'p*w', 'w*=p'):
            p, w = (it.resolve(ev['a'][0]), it.resolve(ev['a'][1])) if fn not in ('w*p', 'w*=p') else (it.resolve(ev['a'][1]), it.resolve(ev['a'][0]))
            conflict = (p.pixelscale is not None and w.pixelscale is not None and
                        tuple(float(x) for x in p.pixelscale) != tuple(float(x) for x in w.pixelscale))
            self.pre = (p, w, it.dig(p), it.dig(w), conflict)

    def after(self, it, i, ev, out):
        fn = ev['fn']
        tag = ev.get('t', {})
        L = it.L
        self._taint(it, ev, out)
        if getattr(self, 'pre_attr', None) is not None:
            kind_, obj_, d0_ = self.pre_attr
            if kind_ == 'derived':
                it.probe('derived_plane_edited')
                it.fault('attribute_update')
                if it.dig(obj_) != d0_:
                    it.violate('C07.meta', {'what': 'derived-plane-shares-state-with-its-source', 'how': tag.get('how', '?')},
                               'editing a plane obtained by %s changed the plane it was obtained from' % tag.get('how', '?'), i)
            else:
                it.probe('assignment_that_may_be_refused')
                if not out.ok:
                    it.probe('refused_attribute_assignment')
                    it.fault('refuse')
                    if it.dig(obj_) != d0_:
                        it.violate('C07.meta', {'what': 'refused-assignment-changed-plane', 'attr': ev['a'][1], 'exc': type(out.exc).__name__},
                                   'the assignment plane.%s = ... was refused (%r) but the plane is not what it was' % (ev['a'][1], out.exc), i)
        if fn.startswith('check.') and ev.get('id') in self.tainted:
            return
        if self.pre is not None:
            p, w, dp, dw, conflict = self.pre
            if tag.get('expect') == 'refuse' and not conflict:
                it.probe('px_premise_failed')
            elif tag.get('expect') == 'refuse':
                it.fault('refuse')
                it.probe('check:px')
                it.probe('px_conflict')
                if tag.get('bad_kind') in ('Tilt', 'DispersiveTilt'):
                    it.probe('px_conflict_tilt_plane')
                if tag.get('bad_kind') == 'sampled-scalar-wavefront':
                    it.probe('px_conflict_scalar_wavefront')
                if out.ok:
                    it.violate('C07.px', {'what': 'not-refused'}, 'a plane with pixel scale %r was applied to a wavefront with pixel scale %r'
                               % (p.pixelscale, None if w.pixelscale is None else tuple(w.pixelscale)), i)
                elif it.dig(p) != dp or it.dig(w) != dw:
                    it.violate('C07.px', {'what': 'refusal-changed-operand'}, 'refused multiply changed an operand', i)
            elif out.ok:
                r = out.value
                it.probe('check:meta')
                if r is w or it.dig(w) != dw or it.dig(p) != dp:
                    it.violate('C07.meta', {'what': 'operand-changed-or-returned', 'plane': type(p).__name__},
                               'the product %s the wavefront it was given' % ('is' if r is w else 'changed an operand of'), i)
                if r.wavelength != w.wavelength:
                    it.violate('C07.meta', {'what': 'wavelength'}, 'wavelength %r -> %r' % (w.wavelength, r.wavelength), i)
                want_f = p.focal_length if isinstance(p, L.Pupil) else w.focal_length
                if r.focal_length != want_f:
                    it.violate('C07.meta', {'what': 'focal-length', 'plane': type(p).__name__},
                               'focal length after %s is %r, expected %r' % (type(p).__name__, r.focal_length, want_f), i)
                if tag.get('reused_plane'):
                    it.probe('plane_reused_at_another_sampling')
                if tag.get('default_plane'):
                    it.probe('default_plane')
                    same = (tuple(r.shape) == tuple(w.shape) and str(r.ptype) == str(w.ptype) and
                            ((r.pixelscale is None and w.pixelscale is None) or
                             (r.pixelscale is not None and w.pixelscale is not None and tuple(r.pixelscale) == tuple(w.pixelscale))))
                    if same and len(tuple(w.shape)) == 2:
                        same = np.array_equal(r.field, w.field)
                    if not same:
                        it.violate('C07.meta', {'what': 'default-plane-changed-something'}, 'a plane with default attributes changed the wavefront', i)
            elif tag.get('expect') == 'ok':
                it.violate('C07.phasor', {'what': 'legal-multiply-raised', 'exc': type(out.exc).__name__}, '%s raised %r' % (fn, out.exc), i)
        if fn == 'check.views' and out.ok and out.value.get('premise'):
            v = out.value
            it.probe('check:views')
            it.probe('nfields:%s' % ('1' if v['nfields'] == 1 else ('2' if v['nfields'] == 2 else '3+')))
            if v['nfields'] >= 3 and v['overlap']:
                it.probe('three_fields_overlap')
            if v.get('bridged'):
                it.probe('disjoint_pair_bridged')
            for cl in v['clipped']:
                it.probe('clip:' + cl)
            if tag.get('dirty'):
                it.fault('dirty')
            if not v['field_ok']:
                it.violate('C07.views', {'what': 'field-vs-fields'}, '.field is not the coherent sum of the wavefront\'s fields', i)
            if not v['views_ok']:
                it.violate('C07.views', {'what': 'intensity-vs-field', 'overlap': v['overlap']}, v['views_detail'], i)
            if 'reread_ok' in v:
                it.probe('views_reread_after_caller_write')
                if not v['reread_ok']:
                    it.violate('C07.views', {'what': 'second-reading-differs-after-caller-write'},
                               'field / intensity read a second time, after the caller wrote into the arrays the first reading returned, differ from the first reading', i)
            it.probe('check:insert')
            if v.get('second_insert_ok') is False:
                it.violate('C07.insert', {'what': 'second-accumulation-differs'},
                           'after insert(out, weight) a second insert into a clean buffer (or the intensity view) no longer shows the wavefront', i)
            if not v['insert_ok'] or not v['insert_same_object']:
                it.violate('C07.insert', {'what': 'accumulate' if v['insert_same_object'] else 'returns-other-array',
                                          'weighted': tag.get('weight', 1) != 1, 'same_shape': tag.get('same_shape', False)}, v['insert_detail'], i)
        elif fn == 'churn.views':
            it.probe('short_lived_wavefronts')
            it.probe('check:views')
            if not out.ok:
                it.violate('C07.views', {'what': 'view-raised', 'exc': type(out.exc).__name__}, 'a series of short-lived wavefronts raised %r' % (out.exc,), i)
            else:
                for q, (e_int, e_ins, nf) in enumerate(out.value):
                    if not (e_int <= 1e-12):
                        it.violate('C07.views', {'what': 'intensity-vs-field', 'overlap': 'short-lived-wavefronts'},
                                   'trial %d of a series of wavefronts, each built, read and dropped: max |intensity - |field|^2| / max = %.3g' % (q, e_int), i)
                        break
                    if not (e_ins <= 1e-12):
                        it.violate('C07.insert', {'what': 'accumulate', 'weighted': ev['a'][2] != 1, 'same_shape': True, 'series': 'short-lived-wavefronts'},
                                   'trial %d of a series of wavefronts, each built, read and dropped: insert differs from weight*|field|^2 by %.3g' % (q, e_ins), i)
                        break
        elif fn == 'check.views' and not out.ok:
            it.violate('C07.views', {'what': 'view-raised', 'exc': type(out.exc).__name__}, 'reading the views raised %r' % (out.exc,), i)
        if fn == 'check.phasor' and out.ok and out.value.get('premise'):
            it.probe('check:phasor')
            if tag.get('scalar_plane'):
                it.probe('scalar_plane')
            if tag.get('two_segmented'):
                it.probe('two_segmented_planes')
            if tag.get('caller_write'):
                it.probe('phasor_after_caller_write')
            if tag.get('attribute_update'):
                it.probe('phasor_after_attribute_update')
                it.fault('attribute_update')
            if tag.get('combo'):
                it.probe('attributes:' + tag['combo'])
            if tag.get('slit'):
                it.probe('slit_plane')
            if tag.get('rescaled'):
                it.probe('rescaled_plane')
            if tag.get('mask_refilled'):
                it.probe('mask_buffer_refilled')
            if not out.value['ok']:
                it.violate('C07.phasor', {'what': 'pointwise-phasor', 'nplanes': min(tag.get('nplanes', 1), 3)}, out.value['detail'], i)
        elif fn == 'check.phasor' and not out.ok:
            it.violate('C07.phasor', {'what': 'view-raised', 'exc': type(out.exc).__name__}, 'check raised %r' % (out.exc,), i)


class OpticsBase(Scenario):
    def make_fns(self):
        fns = dict(self.fns)
        fns.update(HELPERS)
        return fns

    @staticmethod
    def phys(rng):
        wl = rng.choice([500e-9, 650e-9, 1e-6])
        f = rng.choice([0.5, 1.0, 2.0])
        du0 = rng.choice([5e-6, 4e-6])
        n0 = rng.choice([16, 24, 32, 40])
        dx = wl * f / (du0 * n0)
        return {'wl': wl, 'f': f, 'du0': du0, 'n0': n0, 'dx': dx}


class ViewsScenario(OpticsBase):
    name = 'optics_views'
    prop = 'C07'
    quick_runs = 1500
    thorough_runs = 150000
    audit_every = 8
    rule = ('each run = a program of 1..4 plane multiplications (default / scalar / array planes of even, odd and non-square shapes, '
            'monolithic or 2-4 segment masks with overlapping bounding boxes, Tilt and first-order DispersiveTilt, fitted pupils), '
            'optionally a DFT propagation (random shape, prop_shape, oversampling, output mask, per-axis pixel scales), an Image plane and a '
            'propagation back; after every step field, intensity and insert(out, weight) are read, the accumulator having arbitrary shape '
            'and prior content (F2), and pixel-scale-conflicting planes are injected (F5); further workload ingredients added by the seeded rounds are listed in MANIFEST.json and DESIGN.md section 15; distinct = distinct history digest; non-trivial '
            '= at least one dirty accumulator or refusal fired and at least one model comparison was made')
    state_measure = 'distinct (#fields class, overlap, clipping sides, plane kinds) signatures of the wavefronts reached'
    assumptions = ['the dense model places every documented Field (Wavefront.data[i].data/offset) with its origin sample floor(n/2) at '
                   'floor(N/2)+offset on a zero plane; propagation itself is not modelled (C02 is not applicable)',
                   'segment masks are disjoint (Voronoi partitions), as the documentation requires',
                   'NaN/inf accumulators are replaced by loud finite garbage: before + w*intensity is NaN by arithmetic there']
    must_hit = ['short_lived_wavefronts', 'derived_plane_edited', 'assignment_that_may_be_refused', 'three_fields_overlap', 'clip:lo0', 'clip:hi0', 'clip:lo1', 'clip:hi1', 'clip:outside', 'scalar_plane',
                'two_segmented_planes', 'px_conflict', 'default_plane', 'nfields:1', 'nfields:3+', 'disjoint_pair_bridged',
                'phasor_after_caller_write', 'phasor_after_attribute_update', 'slit_plane', 'plane_reused_at_another_sampling',
                'views_reread_after_caller_write', 'rescaled_plane', 'px_conflict_tilt_plane', 'px_conflict_scalar_wavefront', 'mask_buffer_refilled']
    probe_names = must_hit + ['coldwarm_audit', 'attributes:scalar-amplitude', 'attributes:no-opd', 'attributes:mask-only', 'attributes:typed-mask',
                              'attributes:layouts']

    def program(self, rng, world, force=None):
        force = force or {}
        ph = world['phys']
        b = Builder(rng, 0)
        S = force.get('S') or [rng.randint(3, 11), rng.randint(3, 11)]
        world['shapes']['S'] = list(S)
        world['shapes']['S2'] = [rng.randint(3, 11), rng.randint(3, 11)]
        tilt = [rng.uniform(-3, 3) * 1e-6, rng.uniform(-3, 3) * 1e-6] if rng.random() < 0.2 else None
        w = b.E('Wavefront', [ph['wl']], {'tilt': tilt} if tilt else None, tag='w')
        planes = []      # planes applied so far (for the phasor model)
        flags = {'scalar': False, 'nseg': 0}

        def views(wid, dirty=True):
            wshape = None
            k = {'fill': rng.choice(['garbage', 'neg', 'nan', 'big']) if dirty else 'zeros', 'seed': b.sd(), 'weight': rng.choice([1, 1, 0.5, 2.0, -1.5])}
            t = {'dirty': dirty, 'weight': k['weight']}
            mode = force.get('acc') or rng.choice(['same', 'same', 'smaller', 'larger', 'odd', 'tiny', 'offside'])
            if mode != 'same':
                k['acc_shape'] = {'smaller': [rng.randint(2, 5), rng.randint(2, 5)], 'larger': [rng.randint(12, 30), rng.randint(12, 30)],
                                  'odd': [rng.randint(3, 15) | 1, rng.randint(2, 14)], 'tiny': [1, rng.randint(1, 2)],
                                  'offside': [rng.randint(2, 40), rng.randint(2, 40)]}[mode]
            else:
                t['same_shape'] = True
            b.E('check.views', ['@' + wid], k, t=t, tag='v')

        def mul(pid, wid, **t):
            fn = rng.choice(['Plane.multiply', 'w*p', 'p*w', 'w*=p'])
            a = ['@' + wid, '@' + pid] if fn in ('w*p', 'w*=p') else ['@' + pid, '@' + wid]
            return b.E(fn, a, t=dict({'expect': 'ok'}, **t), tag='w')

        # ---- none-typed planes first (only legal on a none-typed wavefront)
        if rng.random() < 0.5 or force.get('default'):
            p = b.E('Plane', None, {}, tag='p')
            w = mul(p, w, default_plane=True)
        if rng.random() < 0.3:
            p = b.E('Plane', None, {'amplitude': rng.choice([0.5, 2.0]), 'opd': rng.choice([0.0, 1.3e-7])}, tag='p')
            planes.append(p)
            flags['scalar'] = True
            w = mul(p, w)
        # ---- pupil planes
        npup = force.get('npup') or rng.choice([1, 1, 2, 3])
        for j in range(npup):
            opd_ref = None
            amp_plane = None
            sname = 'S' if j == 0 or rng.random() < 0.6 else 'S2'
            if rng.random() < 0.15 and j > 0:
                p = b.E('Pupil', None, {'amplitude': rng.choice([0.7, 1.0]), 'opd': rng.choice([0.0, 2.1e-7]), 'focal_length': ph['f']}, tag='p')
                flags['scalar'] = True
            else:
                amp, opd, m, k = pupil_arrays(b, sname, world['shapes'][sname], seg=force.get('seg'))
                spread = k > 1 and (rng.random() < 0.6 or force.get('spread'))
                if spread:
                    # a different tilt per segment, a few output samples apart, fitted out below: windows of the propagated
                    # fields then sit at different places (some disjoint, some overlapping)
                    unit = ph['du0'] / ph['f']
                    tl_ = [[rng.uniform(-5, 5) * unit, rng.uniform(-5, 5) * unit] for _ in range(k)]
                    rs_ = b.E('h.segment_ramp', ['@' + m, tl_, ph['dx']], tag='rs')
                    opd = b.E('np.add', ['@' + opd, '@' + rs_], tag='o')
                kw = {'amplitude': '@' + amp, 'opd': '@' + opd, 'pixelscale': ph['dx'], 'focal_length': ph['f'] * (1 if j == 0 else rng.choice([1, 1.5]))}
                if rng.random() < 0.85 or k > 1:
                    kw['mask'] = '@' + m
                else:
                    # no explicit mask: lentil derives it from the non-zero part of the amplitude, so give the amplitude a shape
                    S_ = world['shapes'][sname]
                    az = b.A({'kind': 'mul', 'x': {'kind': 'uniform', 'shape': sname, 'lo': 0.4, 'hi': 1.0, 'seed': b.sd()},
                              'y': {'kind': rng.choice(['disk', 'rect']), 'shape': sname, 'radius': min(S_) / 2.0 - 0.3,
                                    'half': [max(1, S_[0] // 2 - 1), max(1, S_[1] // 2 - 2)], 'dr': rng.choice([0, 1]), 'dc': rng.choice([0, -1])}})
                    kw['amplitude'] = '@' + az
                if rng.random() < 0.1:
                    kw['opd'] = rng.choice([0.0, 1e-7])
                combo = force.get('combo') or rng.choice(['all', 'all', 'all', 'scalar-amplitude', 'no-opd', 'mask-only', 'typed-mask', 'layouts'])
                if combo == 'scalar-amplitude' and 'mask' in kw:
                    kw['amplitude'] = rng.choice([0.7, 1.0, 2.0])
                elif combo == 'no-opd':
                    kw.pop('opd')
                elif combo == 'mask-only' and 'mask' in kw:
                    kw.pop('opd')
                    kw.pop('amplitude')
                elif combo == 'typed-mask' and 'mask' in kw:
                    # the same mask as booleans / integers (a mask a caller may well hand over)
                    kw['mask'] = '@' + b.E('astype', [kw['mask'], rng.choice(['bool', 'int64', 'uint8', 'float32'])], tag='m')
                elif combo == 'layouts':
                    for name in ('opd', 'mask', 'amplitude'):
                        if isinstance(kw.get(name), str) and rng.random() < 0.7:
                            kw[name] = '@' + b.E('h.layout', [kw[name], rng.choice(['F', 'T', 'strided', 'crop'])], tag='l')
                if combo != 'all':
                    flags['combo'] = combo
                cls_ = 'Pupil'
                if j > 0 and rng.random() < 0.25:
                    # the same optics as a generic plane of pupil type (no focal length to hand over) or a lenslet array (a Plane)
                    cls_ = rng.choice(['Plane', 'Plane', 'LensletArray'])
                    kw.pop('focal_length', None)
                    kw['ptype'] = 'pupil'            # (both are none-typed by default, which a pupil wavefront must refuse)
                    flags['generic_plane'] = True
                if 'amplitude' in kw and rng.random() < 0.15:
                    kw['amp'] = kw.pop('amplitude')         # the documented alias spelling
                if rng.random() < 0.1:
                    kw['diameter'] = rng.choice([1.0, 0.25])
                p = b.E(cls_, None, kw, tag='p')
                opd_ref = kw['opd'] if isinstance(kw.get('opd'), str) else None
                if rng.random() < 0.5 and opd_ref is not None and isinstance(kw.get('amplitude'), str):
                    opd_ref = kw['amplitude']           # the caller's in-place write goes to the amplitude array instead
                amp_plane = (p, sname) if ('mask' not in kw or rng.random() < 0.5) and cls_ == 'Pupil' else None
                if k > 1:
                    flags['nseg'] += 1
                if rng.random() < 0.12 or force.get('derived_edit'):
                    # a plane derived from this one at the same sampling (rescale by 1, resample to its own pixel scale, copy) is the
                    # caller's to edit: the plane it came from stays what it was -- and goes on being used below
                    how_ = rng.choice(['rescale1', 'resample-same', 'copy'])
                    if how_ == 'rescale1':
                        q_ = b.E('Plane.rescale', ['@' + p, rng.choice([1, 1.0])], tag='q')
                    elif how_ == 'resample-same':
                        q_ = b.E('Plane.resample', ['@' + p, ph['dx']], tag='q')
                    else:
                        q_ = b.E('Plane.copy', ['@' + p], tag='q')
                    what_ = rng.choice(['opd', 'amplitude', 'focal_length'] if cls_ == 'Pupil' else ['opd', 'amplitude'])
                    b.E('setattr', ['@' + q_, what_, {'opd': 3e-7, 'amplitude': 0.25, 'focal_length': ph['f'] * 3.0}[what_]],
                        t={'edit_of_derived': '@' + p, 'how': how_}, tag='x')
                if rng.random() < 0.08 or force.get('bad_assignment'):
                    # an assignment a plane may well refuse (a complex OPD, an OPD cube), on a private copy that is not used again:
                    # accepted or refused is lentil's business; a REFUSED assignment leaves the plane as it was
                    qb_ = b.E('Plane.copy', ['@' + p], tag='q')
                    bad_ = b.A(rng.choice([{'kind': 'complex', 'shape': sname, 'seed': b.sd()},
                                           {'kind': 'uniform', 'shape': [2] + list(world['shapes'][sname]), 'lo': 0.0, 'hi': 1e-7, 'seed': b.sd()}]), 'o')
                    b.E('setattr', ['@' + qb_, rng.choice(['opd', 'amplitude']), '@' + bad_], t={'assignment_may_be_refused': True}, tag='x')
                if j == 0 and not spread and combo == 'all' and (rng.random() < 0.15 or force.get('rescaled')):
                    # the plane a caller gets back from rescale / resample is a plane like any other (its sampling is its own)
                    if rng.random() < 0.5:
                        p = b.E('Plane.rescale', ['@' + p, rng.choice([2.0, 1.5, 0.75])], tag='p')
                    else:
                        p = b.E('Plane.resample', ['@' + p, ph['dx'] / rng.choice([2.0, 1.5])], tag='p')
                    opd_ref = None
                    amp_plane = None
                    flags['rescaled'] = True
                if rng.random() < 0.25 or spread:
                    p = b.E('Plane.fit_tilt', ['@' + p], tag='p')
                    opd_ref = None      # the fitted copy no longer views the caller's array
                    amp_plane = None
                    flags['spread'] = flags.get('spread') or spread
            planes.append(p)
            w_before = w
            w = mul(p, w)
            b.E('check.phasor', ['@' + w, ['@' + x for x in planes], ph['wl']],
                t={'nplanes': len(planes), 'scalar_plane': flags['scalar'], 'two_segmented': flags['nseg'] >= 2, 'combo': flags.pop('combo', None),
                   'rescaled': flags.get('rescaled', False)}, tag='c')
            views(w)
            if flags.get('rescaled'):
                break           # the wavefront now has the rescaled plane's sampling: no further pupil-sampled planes
            if amp_plane is not None and (rng.random() < 0.25 or force.get('caller_write')):
                # the caller assigns a new amplitude / OPD through the documented attributes and sends the wavefront through again
                what = rng.choice(['amplitude', 'opd'])
                newa = b.A({'kind': 'uniform' if what == 'amplitude' else 'normal', 'shape': amp_plane[1], 'lo': 0.3, 'hi': 1.0,
                            'sigma': 3e-8, 'seed': b.sd()})
                b.E('setattr', ['@' + amp_plane[0], what, '@' + newa], tag='s')
                w = mul(amp_plane[0], w_before, attribute_update=True)
                b.E('check.phasor', ['@' + w, ['@' + x for x in planes], ph['wl']],
                    t={'nplanes': len(planes), 'attribute_update': True}, tag='c')
            if isinstance(kw.get('mask'), str) and cls_ == 'Pupil' and combo == 'all' and k == 1 and (rng.random() < 0.15 or force.get('caller_write')):
                # the caller refills its mask buffer in place to build the next plane: the plane already built keeps the mask it was given
                m_new = b.A({'kind': rng.choice(['disk', 'rect']), 'shape': sname, 'radius': min(world['shapes'][sname]) / 2.0 - 1.0,
                             'half': [1, 1], 'dr': rng.choice([0, 1]), 'dc': rng.choice([-1, 0])}, 'm')
                b.E('h.refill', [kw['mask'], '@' + m_new], tag='s')
                w_m = mul(p, w_before, caller_write=True, mask_refilled=True)
                b.E('check.phasor', ['@' + w_m, ['@' + x for x in planes], ph['wl']], t={'nplanes': len(planes), 'mask_refilled': True}, tag='c')
            if opd_ref is not None and (rng.random() < 0.25 or force.get('caller_write')):
                # the caller edits its own OPD array in place (the plane holds a view of it) and sends the wavefront through again
                pe = {'env': 'perturb', 'target': opd_ref, 'seed': b.sd()}
                if opd_ref == kw.get('opd'):
                    pe['scale'] = 2e-8          # OPD-sized; an amplitude array gets a perturbation of its own magnitude
                b.events.append(pe)
                w = mul(p, w_before, caller_write=True)
                b.E('check.phasor', ['@' + w, ['@' + x for x in planes], ph['wl']],
                    t={'nplanes': len(planes), 'caller_write': True}, tag='c')
            if (rng.random() < 0.2 or force.get('slit')) and min(world['shapes'][sname]) >= 3:
                # a slit: the stop's mask is a single row or column (never fitted), so products are one sample thick
                S_ = world['shapes'][sname]
                row = rng.random() < 0.5
                sl = b.A({'kind': 'rect', 'shape': sname, 'half': [0, S_[1] // 2] if row else [S_[0] // 2, 0], 'dr': rng.choice([0, 1, -1]) if row else 0,
                          'dc': 0 if row else rng.choice([0, 1, -1]), 'degenerate_ok': True}, 'm')
                kws = {'mask': '@' + sl, 'pixelscale': ph['dx'], 'focal_length': ph['f']}
                if rng.random() < 0.5:
                    kws['amplitude'] = '@' + b.A({'kind': 'uniform', 'shape': sname, 'lo': 0.4, 'hi': 1.0, 'seed': b.sd()})
                ps = b.E('Pupil', None, kws, tag='p')
                planes.append(ps)
                w = mul(ps, w, slit=True)
                b.E('check.phasor', ['@' + w, ['@' + x for x in planes], ph['wl']], t={'nplanes': len(planes), 'slit': True}, tag='c')
                views(w)
            if rng.random() < 0.3 or force.get('reuse_tilt'):
                tl = b.E('Tilt', None, {'x': rng.uniform(-4, 4) * 1e-6, 'y': rng.uniform(-4, 4) * 1e-6}, tag='t')
                flags['tilt_plane'] = tl
                w2 = mul(tl, w)
                b.E('check.phasor', ['@' + w2, ['@' + x for x in planes], ph['wl']], t={'nplanes': len(planes), 'tilt_plane': True}, tag='c')
                w = w2
            if rng.random() < 0.25:
                # a plane whose pixel scale disagrees with the wavefront's: must be refused, operands untouched (F5)
                badpx = ph['dx'] * rng.choice([0.5, 1.25, 1 + 3e-6, 1 - 2e-3])
                kind_ = rng.choice(['Pupil', 'Pupil', 'Tilt', 'DispersiveTilt', 'Plane'])
                if kind_ == 'Pupil':
                    bad = b.E('Pupil', None, {'amplitude': 1.0, 'pixelscale': badpx, 'focal_length': ph['f']}, tag='p')
                elif kind_ == 'Tilt':
                    bad = b.E('Tilt', None, {'x': 1e-6, 'y': -1e-6, 'pixelscale': rng.choice([badpx, [ph['dx'], badpx]])}, tag='p')
                elif kind_ == 'DispersiveTilt':
                    bad = b.E('DispersiveTilt', None, {'trace': [0.5, 0.0], 'dispersion': [1e-3, ph['wl'] - 2e-8], 'pixelscale': badpx}, tag='p')
                else:
                    bad = b.E('Plane', None, {'ptype': 'pupil', 'pixelscale': [badpx, ph['dx']]}, tag='p')
                b.E(rng.choice(['Plane.multiply', 'w*p', 'p*w']), ['@' + bad, '@' + w], t={'expect': 'refuse', 'bad_kind': kind_}, tag='x')
                if b.events[-1]['fn'] == 'w*p':
                    b.events[-1]['a'] = b.events[-1]['a'][::-1]
        if rng.random() < 0.15 or force.get('default'):
            # a wavefront that is sampled although all its fields are still scalars (constructor argument, or a scalar plane that carries
            # a pixel scale) meets a plane sampled differently: refused like any other conflict
            if rng.random() < 0.5:
                ws_ = b.E('Wavefront', [ph['wl']], {'pixelscale': rng.choice([ph['dx'], [ph['dx'], ph['dx'] * 1.25]])}, tag='w')
            else:
                w0_ = b.E('Wavefront', [ph['wl']], tag='w')
                sp_ = b.E('Plane', None, {'amplitude': 0.5, 'pixelscale': ph['dx']}, tag='p')
                ws_ = mul(sp_, w0_)
            badp = b.E('Pupil', None, {'amplitude': '@' + b.A({'kind': 'uniform', 'shape': 'S', 'lo': 0.4, 'hi': 1.0, 'seed': b.sd()}),
                                       'pixelscale': ph['dx'] * rng.choice([0.5, 1.25, 1 - 2e-3]), 'focal_length': ph['f']}, tag='p')
            b.E('Plane.multiply', ['@' + badp, '@' + ws_], t={'expect': 'refuse', 'bad_kind': 'sampled-scalar-wavefront'}, tag='x')
        # ---- propagation, image plane, propagation back
        if rng.random() < 0.8 or force.get('propagate'):
            os_ = rng.choice([1, 2, 3])
            n = [rng.randint(3, 12), rng.randint(3, 12)]
            du = ph['du0'] if rng.random() < 0.7 else [ph['du0'], ph['du0'] * rng.choice([0.8, 1.6])]
            k = {'pixelscale': du, 'shape': n, 'oversample': os_}
            if flags.get('spread') and rng.random() < 0.8:
                n = [rng.randint(10, 16), rng.randint(10, 16)]
                k['shape'] = n
                k['prop_shape'] = [rng.randint(2, 5), rng.randint(2, 5)]
            elif rng.random() < 0.4:
                k['prop_shape'] = [rng.randint(1, n[0]), rng.randint(1, n[1])]
            elif rng.random() < 0.25:
                om = b.A({'kind': rng.choice(['disk', 'rect', 'blob']), 'shape': [n[0] * os_, n[1] * os_], 'radius': min(n) * os_ / 3.0,
                          'half': [max(1, n[0] * os_ // 3), max(1, n[1] * os_ // 4)], 'dr': rng.choice([0, 1, -2]), 'dc': rng.choice([0, 2]), 'seed': b.sd()}, 'om')
                k['mask'] = '@' + om
            wi = b.E('propagate_dft', ['@' + w], k, tag='w', t={'expect': 'ok'})
            views(wi)
            if flags.get('tilt_plane') and (rng.random() < 0.5 or force.get('reuse_tilt')):
                # the SAME sampling-less plane objects meet a wavefront of another sampling (image side): still legal, still no effect on the field
                wi2 = mul(flags['tilt_plane'], wi, reused_plane=True)
                views(wi2)
            if rng.random() < 0.3 or force.get('default'):
                # image-side plane whose (micron-scale) pixel size is off by a fraction of a percent: still a conflict
                du_s = (du if isinstance(du, float) else du[0]) / os_
                du_c = du_s if isinstance(du, float) else du[1] / os_
                f_ = rng.choice([1 + 2e-3, 1 - 1.5e-3, 1.25])
                badi = b.E('Image', None, {'pixelscale': [du_s * f_, du_c * f_]}, tag='p')
                b.E('Plane.multiply', ['@' + badi, '@' + wi], t={'expect': 'refuse'}, tag='x')
            if rng.random() < 0.5:
                if rng.random() < 0.5:
                    ia = b.A({'kind': 'uniform', 'shape': [rng.randint(2, n[0] * os_ + 2), rng.randint(2, n[1] * os_ + 2)], 'lo': 0.2, 'hi': 1.0, 'seed': b.sd()})
                    ip = b.E('Image', None, {'amplitude': '@' + ia}, tag='p')
                else:
                    ip = b.E('Image', None, {}, tag='p')
                wi = mul(ip, wi)
                views(wi)
            if rng.random() < 0.4:
                wb = b.E('propagate_dft', ['@' + wi], {'pixelscale': ph['dx'] * rng.choice([1, 2]), 'shape': [rng.randint(3, 9), rng.randint(3, 9)],
                                                       'oversample': rng.choice([1, 2])}, tag='w', t={'expect': 'ok'})
                views(wb)
        return b.events

    def generate(self, rng):
        world = {'shapes': {}, 'cache': rng.choice([32, 32, 0, 1, 2]), 'rng_seed': rng.randrange(2 ** 31), 'phys': self.phys(rng), 'K': 1}
        events = self.program(rng, world)
        out = []
        for e in events:
            out.append(e)
            if rng.random() < 0.03:
                out.append(rng.choice([{'env': 'cache_clear'}, {'env': 'cache', 'maxsize': rng.choice([0, 1, 2])}]))
            if e.get('fn') == 'check.views' and rng.random() < 0.04:
                # short-lived wavefronts: a series of trials, each with a pupil and a wavefront of its own, dropped before the next
                out.append({'c': 0, 'fn': 'churn.views', 'a': [rng.randint(8, 14), [rng.randrange(10 ** 6) for _ in range(rng.randint(4, 8))],
                                                               rng.choice([1.0, 0.5, 2.0])], 'id': e['id'] + 'ch'})
            if e.get('fn') == 'check.views' and rng.random() < 0.1:
                d = copy.deepcopy(e)            # F6: read the views again, into a fresh dirty accumulator
                d['id'] = e['id'] + 'd'
                d['k']['seed'] = e['k']['seed'] + 1
                out.append(d)
        return {'scenario': self.name, 'world': world, 'events': out}

    def prelude(self, verif_seed):
        import random
        runs = []
        cases = [{'S': [7, 8], 'npup': 2, 'seg': True, 'propagate': True, 'acc': 'offside', 'default': True, 'spread': True},
                 {'S': [6, 6], 'npup': 3, 'seg': True, 'propagate': True, 'acc': 'tiny', 'default': True},
                 {'S': [9, 5], 'npup': 2, 'seg': True, 'propagate': True, 'acc': 'smaller', 'default': True, 'slit': True, 'reuse_tilt': True},
                 {'S': [5, 9], 'npup': 1, 'seg': False, 'propagate': True, 'acc': 'larger', 'default': True, 'caller_write': True},
                 {'S': [8, 7], 'npup': 1, 'seg': True, 'propagate': True, 'acc': 'same', 'rescaled': True, 'combo': 'all'}]
        for j, force in enumerate(cases * 3):
            rng = random.Random(verif_seed * 67867967 + j)
            world = {'shapes': {}, 'cache': 32, 'rng_seed': 1, 'phys': self.phys(rng), 'K': 1}
            events = self.program(rng, world, force=force)
            # make sure an accumulator misses the wavefront entirely and one clips on every side
            wids = [e['id'] for e in events if e.get('fn') == 'propagate_dft']
            for wid in wids[:1]:
                events.append({'c': 0, 'fn': 'check.views', 'a': ['@' + wid], 'id': 'pv%d' % j,
                               'k': {'fill': 'garbage', 'seed': j, 'weight': 2.0, 'acc_shape': [2, 2]}, 't': {'dirty': True, 'weight': 2.0}})
            if j < 3:
                events.append({'c': 0, 'fn': 'churn.views', 'a': [10 + 2 * j, [verif_seed * 1000 + 100 * j + q for q in range(60)], 0.5], 'id': 'churn%d' % j})
            runs.append({'scenario': self.name, 'world': world, 'events': events, 'run_index': -100 + j, 'seed': 0})
        # directed: a field wholly outside the accumulator (large tilt, small prop window)
        rng = random.Random(verif_seed + 5)
        world = {'shapes': {'S': [6, 6]}, 'cache': 32, 'rng_seed': 1, 'phys': self.phys(rng), 'K': 1}
        ph = world['phys']
        b = Builder(rng, 0)
        amp, opd, m, k = pupil_arrays(b, 'S', [6, 6], seg=False)
        p = b.E('Pupil', None, {'amplitude': '@' + amp, 'opd': '@' + opd, 'mask': '@' + m, 'pixelscale': ph['dx'], 'focal_length': ph['f']}, tag='p')
        w0 = b.E('Wavefront', [ph['wl']], {'tilt': [10 * ph['du0'] / ph['f'], 0.0]}, tag='w')
        w1 = b.E('Plane.multiply', ['@' + p, '@' + w0], t={'expect': 'ok'}, tag='w')
        wi = b.E('propagate_dft', ['@' + w1], {'pixelscale': ph['du0'], 'shape': [24, 24], 'prop_shape': [3, 3], 'oversample': 1}, tag='w')
        b.E('check.views', ['@' + wi], {'fill': 'garbage', 'seed': 1, 'weight': 1.0, 'acc_shape': [4, 4]}, t={'dirty': True}, tag='v')
        b.E('check.views', ['@' + wi], {'fill': 'neg', 'seed': 2, 'weight': 0.5}, t={'dirty': True, 'weight': 0.5, 'same_shape': True}, tag='v')
        runs.append({'scenario': self.name, 'world': world, 'events': b.events, 'run_index': -50, 'seed': 0})
        return runs

    def execute(self, L, run):
        it = Interp(L, run['world'], self.make_fns(), ViewsHooks())
        it.run(run['events'])
        states = set()
        for p in it.probes:
            if p.startswith(('nfields:', 'clip:')) or p in ('three_fields_overlap', 'scalar_plane', 'two_segmented_planes', 'default_plane'):
                states.add(p)
        for (i, c, fn, brief) in it.history:
            states.add('%s>%s' % (fn, brief.split(':')[0] if brief.startswith('ok') else brief))
        return self.result(it, (), states)


# --------------------------------------------------------------------------- C04

class TiltHooks(Hooks):
    prefix = 'C04'
    def before(self, it, i, ev):
        self.pre_plane = None
        if ev.get('t', {}).get('may_refuse_fit'):
            pl = it.resolve(ev['a'][0])
            self.pre_plane = (pl, it.dig(pl))

    def after(self, it, i, ev, out):
        fn = ev['fn']
        tag = ev.get('t', {})
        if not fn.startswith('check.'):
            if tag.get('fft_attempt'):
                it.probe('fft_attempt_before_dft')
            if getattr(self, 'pre_plane', None) is not None:
                it.probe('inplace_fit_on_unwritable_opd')       # (a plane that keeps a private copy of its arrays simply carries it out)
            if getattr(self, 'pre_plane', None) is not None and not out.ok:
                # a fit that cannot be carried out (the OPD cannot be written) leaves OPD and recorded tilt as they were
                it.probe('refused_inplace_fit')
                it.fault('refuse')
                pl, d0 = self.pre_plane
                if it.dig(pl) != d0:
                    it.violate('C04.fit', {'what': 'refused-fit-changed-plane', 'exc': type(out.exc).__name__},
                               'fit_tilt(inplace=True) was refused (%r) but left the plane changed (%d tilt records)' % (out.exc, len(pl.tilt)), i)
            if tag.get('expect') == 'ok' and not out.ok:
                it.violate('C04.equiv', {'what': 'step-raised', 'fn': fn, 'exc': type(out.exc).__name__}, '%s raised %r' % (fn, out.exc), i)
            return
        if not out.ok:
            it.violate('C04.equiv', {'what': 'check-raised', 'fn': fn, 'exc': type(out.exc).__name__}, '%s raised %r' % (fn, out.exc), i)
            return
        v = out.value
        if not v.get('premise'):
            it.probe('premise_failed:' + fn)
            if fn in ('check.fit', 'check.refit') and v.get('recorded') is False:
                it.violate('C04.fit', {'what': 'angles-not-recorded'}, 'fit_tilt did not record one tilt per segment', i)
            return
        carrier = tag.get('carrier', '?')
        if fn == 'check.equiv':
            it.probe('check:equiv')
            it.probe('carrier:' + carrier)
            for f in tag.get('flags', []):
                it.probe(f)
            if v['common'] == 0:
                it.probe('no_common_samples')
            if v.get('dropped'):
                it.probe('field_missed_output')
            if tag.get('permuted'):
                it.fault('reorder')
            if tag.get('refit'):
                it.fault('refit')
            if tag.get('layout', 'C') != 'C':
                it.probe('noncontiguous_opd')
            if not v['ok']:
                it.violate('C04.equiv', {'carrier': carrier, 'square_pixels': tag.get('square', True), 'segmented': tag.get('segmented', False)},
                           v['detail'], i)
            if not v['zero_outside']:
                it.violate('C04.equiv', {'carrier': carrier, 'what': 'nonzero-outside-windows'}, 'field is non-zero outside every evaluated window', i)
        elif fn in ('check.fit', 'check.refit'):
            it.probe('check:fit')
            if tag.get('history'):
                it.probe('fit:' + tag['history'])
                it.fault('refit')
            for name, what in (('zero', 'residual-tilt'), ('piston', 'piston-changed'), ('sum', 'opd-plus-recorded-tilt')):
                if not v[name]:
                    it.violate('C04.fit', {'what': what, 'segmented': tag.get('segmented', False)}, v['detail'], i)
        elif fn == 'check.shift':
            it.probe('check:shift')
            if tag.get('n_elements', 1) >= 3:
                it.probe('three_elements')
            if not v['ok']:
                oracle = 'C04.additive' if tag.get('n_elements', 1) > 1 else 'C04.shift'
                it.violate(oracle, {'what': 'field-shift', 'axis': v.get('axis', '?'), 'square_pixels': tag.get('square', True),
                                    'kinds': tag.get('kinds', 'tilt')}, v['detail'], i)
        elif fn == 'check.window':
            it.probe('check:window')
            if not v['ok']:
                it.violate('C04.shift', {'what': 'window-placement', 'square_pixels': tag.get('square', True)}, v['detail'], i)
        elif fn == 'check.tilt_kept':
            it.probe('check:tilt_kept')
            if not v['ok']:
                it.violate('C04.fit', {'what': 'recorded-angles-changed-by-rescale'}, v['detail'], i)
        elif fn == 'check.same_fields':
            it.probe('check:field_order')
            it.fault('reorder')
            if tag.get('far_segment'):
                it.probe('segment_off_detector')
            if not v['same_windows'] or not v['ok']:
                it.violate('C04.equiv', {'carrier': 'field-order', 'what': 'fields-in-reverse-order', 'far_segment': bool(tag.get('far_segment'))}, v['detail'], i)
        elif fn == 'check.trace':
            it.probe('check:trace')
            it.probe('trace_order:%d/%d' % tuple(v['order']))
            if v.get('negative_arc'):
                it.probe('trace_negative_arc' + ('_high_order' if v['order'][0] > 1 else ''))
            if tag.get('after_update'):
                it.probe('trace_after_update')
            if not v['on_trace']:
                it.violate('C04.trace', {'what': 'off-trace', 'trace_order': min(v['order'][0], 2), 'dispersion_order': min(v['order'][1], 2)}, v['detail'], i)
            if not v['arc_ok']:
                it.violate('C04.trace', {'what': 'arc-length', 'trace_order': min(v['order'][0], 2), 'dispersion_order': min(v['order'][1], 2)}, v['detail'], i)


class TiltScenario(OpticsBase):
    name = 'optics_tilt'
    prop = 'C04'
    quick_runs = 1200
    thorough_runs = 120000
    audit_every = 8
    rule = ('each run = one aperture (monolithic or 2-4 segments, each segment with its own tilt, plus a global tilt; sub-pixel to larger '
            'than the output; scalar or per-axis output pixels; oversampling 1-3; prop_shape <= shape) imaged by the real propagate_dft '
            'through every tilt carrier -- Tilt planes split into 1-3 elements in seeded order (F7), Wavefront(tilt=), fit_tilt of the '
            'ramp-carrying OPD, fit/update/re-fit histories, first-order DispersiveTilt elements -- and compared with the eager twin (all '
            'tilt as an OPD ramp in a monolithic pupil) on the samples both evaluate; further workload ingredients added by the seeded rounds are listed in MANIFEST.json and DESIGN.md section 15; distinct = distinct history digest; non-trivial = at '
            'least one reordering/re-fit/duplicate fired and at least one carrier comparison was made')
    state_measure = 'distinct (carrier, tilt magnitude class, pixel squareness, segmentation, window class) tuples'
    assumptions = ['the eager twin is imaged by the same propagate_dft (an error common to both sides is C02 territory)',
                   'fields are compared only on samples that every Field of both wavefronts evaluates (window placement may legitimately '
                   'differ by one sample when two mathematically equal tilt sums round differently)',
                   'expected window positions are not judged when the displacement is within 1e-6 of a non-zero integer',
                   'segments have >= 3 non-collinear pixels so the least-squares tilt is unique']
    must_hit = ['subpixel_only', 'beyond_output', 'nonsquare_pixel', 'per_segment_tilt', 'three_elements', 'carrier:tilt-planes',
                'carrier:wavefront-tilt', 'carrier:fit', 'carrier:refit', 'carrier:dispersive', 'carrier:wavefront-tilt+fit',
                'carrier:tilt-planes-before-pupil', 'carrier:fan-out', 'carrier:same-wavefront-resampled', 'carrier:same-tilt-twice',
                'trace_order:1/1', 'carrier:fit-inplace', 'noncontiguous_opd', 'carrier:dispersive-high-order', 'trace_negative_arc',
                'trace_negative_arc_high_order', 'dispersive_blue', 'dispersive_red', 'pupil_per_axis_pixels', 'output_mask', 'fit:fit-rescale-refit', 'segment_off_detector', 'trace_after_update', 'fit:fit-update-refit', 'fft_attempt_before_dft', 'inplace_fit_on_unwritable_opd']
    probe_names = must_hit + ['coldwarm_audit', 'no_common_samples', 'trace_order:2/1', 'trace_order:1/2', 'trace_order:2/2', 'trace_order:3/1']

    def program(self, rng, world, force=None):
        force = force or {}
        ph = world['phys']
        b = Builder(rng, 0)
        S = force.get('S') or [rng.randint(4, 11), rng.randint(4, 11)]
        world['shapes']['S'] = list(S)
        seg = force.get('seg', rng.random() < 0.5)
        amp, opd, m, k = pupil_arrays(b, 'S', S, seg=seg, offcentre=True)
        os_ = force.get('os') or rng.choice([1, 2, 3])
        square = force.get('square', rng.random() < 0.6)
        du = ph['du0'] if square else [ph['du0'], ph['du0'] * rng.choice([0.625, 1.6, 2.0])]
        dur, duc = (du, du) if square else du
        n = [rng.randint(6, 14), rng.randint(6, 14)]
        z = ph['f']
        mag = force.get('mag') or rng.choice(['sub', 'small', 'small', 'medium', 'beyond'])

        def angle(axis_du):
            px = {'sub': rng.uniform(0.01, 0.9), 'small': rng.uniform(1.1, 4.9), 'medium': rng.uniform(5.1, 9.9),
                  'beyond': rng.uniform(1.2, 3.0) * max(n) * os_}[mag]
            frac = abs(px - round(px))
            if px > 0.5 and frac < 1e-3:
                px += 0.137
            return rng.choice([-1, 1]) * px * axis_du / (z * os_)

        gx, gy = angle(dur), angle(duc)
        segt = [[angle(dur) * rng.choice([0, 0.3, 1]), angle(duc) * rng.choice([0, 0.3, 1])] for _ in range(k)] if k > 1 and mag != 'beyond' else [[0.0, 0.0]]
        far_seg = None
        if k > 1 and mag != 'beyond' and (rng.random() < 0.25 or force.get('far_segment')):
            # one segment steered off the detector altogether (its chip is evaluated nowhere); the others must still be imaged
            far_seg = rng.randrange(k)
            big = rng.uniform(1.5, 3.0) * max(n) * os_
            segt[far_seg] = [rng.choice([-1, 1]) * big * dur / (z * os_), rng.choice([-1, 0, 1]) * big * duc / (z * os_)]
        per_seg = any(t != [0.0, 0.0] for t in segt)
        flags = []
        if mag == 'sub':
            flags.append('subpixel_only')
        if mag == 'beyond':
            flags.append('beyond_output')
        if not square:
            flags.append('nonsquare_pixel')
        if per_seg:
            flags.append('per_segment_tilt')
        base_t = {'square': square, 'segmented': k > 1, 'flags': flags}
        pk = {'pixelscale': du, 'shape': n, 'oversample': os_}
        if rng.random() < 0.5:
            pk['prop_shape'] = [rng.randint(max(1, n[0] // 2), n[0]), rng.randint(max(1, n[1] // 2), n[1])]
        if force.get('out_mask') or (not force and rng.random() < 0.2):
            # an output mask: only its bounding region is evaluated (off-centre, so windows are clipped asymmetrically)
            om = b.A({'kind': rng.choice(['disk', 'rect', 'blob']), 'shape': [n[0] * os_, n[1] * os_], 'radius': min(n) * os_ / 3.0,
                      'half': [max(1, n[0] * os_ // 3), max(1, n[1] * os_ // 4)], 'dr': rng.choice([0, 1, -2]), 'dc': rng.choice([0, 2, -1]),
                      'p': 0.5, 'seed': b.sd()}, 'om')
            pk['mask'] = '@' + om
            flags.append('output_mask')
        dx = ph['dx']
        if force.get('pupil_px') == 'per-axis' or (not force and rng.random() < 0.25):
            # per-axis sampling of the pupil plane itself (a (2,) pixelscale): ramps, fits and the DFT all take the size of their own axis
            dx = [ph['dx'], ph['dx'] * rng.choice([0.8, 1.25, 1.6])]
            flags.append('pupil_per_axis_pixels')
        gm = b.E('h.global_mask', ['@' + m], tag='gm')
        rs = b.E('h.segment_ramp', ['@' + m, segt, dx], tag='rs')
        rg = b.E('h.segment_ramp', ['@' + gm, [[gx, gy]], dx], tag='rg')
        o_rs = b.E('np.add', ['@' + opd, '@' + rs], tag='o')
        o_all = b.E('np.add', ['@' + o_rs, '@' + rg], tag='o')
        W0 = b.E('Wavefront', [ph['wl']], tag='w')
        pkw = {'amplitude': '@' + amp, 'pixelscale': dx, 'focal_length': z}

        def image(pid, wid=None, extra=()):
            w1 = b.E('Plane.multiply', ['@' + pid, '@' + (wid or W0)], t={'expect': 'ok'}, tag='w')
            for t in extra:
                w1 = b.E(rng.choice(['Plane.multiply', 'w*p']), ['@' + t, '@' + w1], t={'expect': 'ok'}, tag='w')
                if b.events[-1]['fn'] == 'w*p':
                    b.events[-1]['a'] = b.events[-1]['a'][::-1]
            if rng.random() < 0.12:
                # (not judged: propagate_fft refuses wavefronts that carry tilt; whatever it does, it leaves the wavefront alone)
                b.E('propagate_fft', ['@' + w1], {'pixelscale': pk['pixelscale'], 'oversample': pk['oversample']}, t={'fft_attempt': True}, tag='x')
            wi = b.E('propagate_dft', ['@' + w1], dict(pk), t={'expect': 'ok'}, tag='w')
            return w1, wi

        # ---- eager twin: every tilt as an OPD ramp in a monolithic pupil
        pe = b.E('Pupil', None, dict(pkw, opd='@' + o_all, mask='@' + gm), tag='p')
        we_pre, ie = image(pe)
        # ---- carrier: Tilt planes (global part), split into 1..3 elements in seeded order
        pb = b.E('Pupil', None, dict(pkw, opd='@' + o_rs, mask='@' + (m if rng.random() < 0.7 else gm)), tag='p')
        nel = force.get('nel') or rng.choice([1, 2, 3])
        parts = []
        rem = [gx, gy]
        for j in range(nel - 1):
            px_, py_ = rng.uniform(-1.5, 1.5) * gx, rng.uniform(-1.5, 1.5) * gy
            parts.append([px_, py_])
            rem = [rem[0] - px_, rem[1] - py_]
        parts.append(rem)
        tids = [b.E('Tilt', None, {'x': t[0], 'y': t[1]}, tag='t') for t in parts]
        order = list(range(nel))
        rng.shuffle(order)
        wpre, ib = image(pb, extra=[tids[j] for j in order])
        b.E('check.equiv', ['@' + ib, '@' + ie, '@' + wpre, '@' + we_pre], t=dict(base_t, carrier='tilt-planes', permuted=nel > 1), tag='c')
        b.E('check.shift', ['@' + wpre, [['tilt', t[0], t[1]] for t in parts], z, du, os_],
            t={'n_elements': nel, 'square': square, 'kinds': 'tilt'}, tag='c')
        if not per_seg and 'prop_shape' in pk and k == 1 and 'mask' not in pk:
            er_ec = None
            b.E('check.window', ['@' + ib, list(np.array([z * gx / dur * os_, -z * gy / duc * os_]).tolist()),
                                 [n[0] * os_, n[1] * os_], [pk['prop_shape'][0] * os_, pk['prop_shape'][1] * os_]], t={'square': square}, tag='c')
        if nel > 1 and rng.random() < 0.7:
            # the same elements in another order (F7) image identically
            order2 = order[::-1]
            wpre2, ib2 = image(pb, extra=[tids[j] for j in order2])
            b.E('check.equiv', ['@' + ib2, '@' + ib, '@' + wpre2, '@' + wpre], t=dict(base_t, carrier='tilt-planes-reordered', permuted=True), tag='c')
        # ---- a steering element: one Tilt object used at some angle, then re-pointed by its owner (public x / y) to the wanted one
        if rng.random() < 0.3 or force:
            tsteer = b.E('Tilt', None, {'x': -1.7 * gx + 1e-6, 'y': 0.6 * gy - 2e-6}, tag='t')
            image(pb, extra=[tsteer])                                        # (first use, at the old angles: not judged)
            # (the attribute `x` is the tilt about the x axis, which is the constructor's `y`, and vice versa: documented in the class)
            b.E('setattr', ['@' + tsteer, 'x', gy], tag='x')
            b.E('setattr', ['@' + tsteer, 'y', gx], tag='x')
            wst_pre, ist = image(pb, extra=[tsteer])
            b.E('check.equiv', ['@' + ist, '@' + ie, '@' + wst_pre, '@' + we_pre], t=dict(base_t, carrier='tilt-plane-repointed'), tag='c')
            b.E('check.shift', ['@' + wst_pre, [['tilt', gx, gy]], z, du, os_], t={'n_elements': 1, 'square': square, 'kinds': 'tilt-repointed'}, tag='c')
        # ---- history: the SAME pre-propagation wavefront object imaged a second time onto a differently sampled plane
        if rng.random() < 0.5 or force:
            du2 = [ph['du0'] * rng.choice([0.8, 1.25]), ph['du0'] * rng.choice([1.0, 1.6, 0.625])]
            pk2 = dict(pk, pixelscale=du2)
            ib_2 = b.E('propagate_dft', ['@' + wpre], pk2, t={'expect': 'ok'}, tag='w')
            ie_2 = b.E('propagate_dft', ['@' + we_pre], pk2, t={'expect': 'ok'}, tag='w')
            b.E('check.equiv', ['@' + ib_2, '@' + ie_2, '@' + wpre, '@' + we_pre],
                t=dict(base_t, carrier='same-wavefront-resampled', square=False, flags=flags + ['nonsquare_pixel']), tag='c')
            b.E('check.shift', ['@' + wpre, [['tilt', t[0], t[1]] for t in parts], z, du2, os_],
                t={'n_elements': nel, 'square': False, 'kinds': 'tilt'}, tag='c')
        # ---- F6: the same Tilt OBJECT met twice in one chain displaces twice
        if rng.random() < 0.4 or force:
            rdup = b.E('h.segment_ramp', ['@' + gm, [[parts[0][0], parts[0][1]]], dx], tag='rj')
            odup = b.E('np.add', ['@' + o_all, '@' + rdup], tag='o')
            pdup = b.E('Pupil', None, dict(pkw, opd='@' + odup, mask='@' + gm), tag='p')
            wed, ied = image(pdup)
            wpd, ibd = image(pb, extra=[tids[j] for j in order] + [tids[0]])
            b.E('check.equiv', ['@' + ibd, '@' + ied, '@' + wpd, '@' + wed], t=dict(base_t, carrier='same-tilt-twice'), tag='c')
            b.E('check.shift', ['@' + wpd, [['tilt', t[0], t[1]] for t in parts] + [['tilt', parts[0][0], parts[0][1]]], z, du, os_],
                t={'n_elements': nel + 1, 'square': square, 'kinds': 'tilt'}, tag='c')
        # ---- carrier: the wavefront's own tilt
        if rng.random() < 0.7 or force:
            wt = b.E('Wavefront', [ph['wl']], {'tilt': [gx, gy]}, tag='w')
            wc_pre, ic = image(pb, wid=wt)
            b.E('check.equiv', ['@' + ic, '@' + ie, '@' + wc_pre, '@' + we_pre], t=dict(base_t, carrier='wavefront-tilt'), tag='c')
        # ---- carrier: fit_tilt of the ramp-carrying OPD (per segment)
        if rng.random() < 0.8 or force:
            lay = force.get('layout') or rng.choice(['C', 'C', 'F', 'T', 'strided', 'crop'])
            o_fit = o_all if lay == 'C' else b.E('h.layout', ['@' + o_all, lay], tag='o')
            a_fit = amp if lay == 'C' or rng.random() < 0.5 else b.E('h.layout', ['@' + amp, rng.choice(['F', 'T', 'strided'])], tag='a')
            pf = b.E('Pupil', None, dict(pkw, amplitude='@' + a_fit, opd='@' + o_fit, mask='@' + m), tag='p')
            q = b.E('Plane.fit_tilt', ['@' + pf], tag='q')
            b.E('check.fit', ['@' + pf, '@' + q], t={'segmented': k > 1, 'layout': lay}, tag='c')
            wq_pre, iq = image(q)
            if k > 1:
                # the same fields listed in the opposite order image identically (a field whose chip misses the output is skipped,
                # the ones after it are not)
                wrev = b.E('h.reversed_fields', ['@' + wq_pre], tag='w')
                irev = b.E('propagate_dft', ['@' + wrev], dict(pk), t={'expect': 'ok'}, tag='w')
                b.E('check.same_fields', ['@' + iq, '@' + irev], t={'far_segment': far_seg is not None}, tag='c')
            b.E('check.equiv', ['@' + iq, '@' + ie, '@' + wq_pre, '@' + we_pre], t=dict(base_t, carrier='fit', layout=lay), tag='c')
            if lay != 'C' and (rng.random() < 0.6 or force):
                # the documented in-place form on a private plane whose OPD is a non-contiguous caller array
                o_in = b.E('h.layout', ['@' + o_all, lay], tag='o')
                pin = b.E('Pupil', None, dict(pkw, opd='@' + o_in, mask='@' + m), tag='p')
                pin0 = b.E('Plane.copy', ['@' + pin], tag='p')
                qin = b.E('Plane.fit_tilt', ['@' + pin], {'inplace': True}, tag='q')
                b.E('check.fit', ['@' + pin0, '@' + qin], t={'segmented': k > 1, 'layout': lay, 'inplace': True}, tag='c')
                wqi_pre, iqi = image(qin)
                b.E('check.equiv', ['@' + iqi, '@' + ie, '@' + wqi_pre, '@' + we_pre], t=dict(base_t, carrier='fit-inplace', layout=lay), tag='c')
        if rng.random() < 0.25 or force:
            # an in-place fit that cannot be carried out: the OPD is a read-only view (memory map, broadcast).  Refused or not, OPD plus
            # recorded tilt still is the original: the plane images like the twin, and so does the copy the caller falls back to
            o_ro = b.E('h.readonly', ['@' + o_all], tag='o')
            pro = b.E('Pupil', None, dict(pkw, opd='@' + o_ro, mask='@' + m), tag='p')
            b.E('Plane.fit_tilt', ['@' + pro], {'inplace': True}, t={'may_refuse_fit': True}, tag='x')
            wro_pre, iro = image(pro)
            b.E('check.equiv', ['@' + iro, '@' + ie, '@' + wro_pre, '@' + we_pre], t=dict(base_t, carrier='refused-inplace-fit'), tag='c')
            qro = b.E('Plane.fit_tilt', ['@' + pro], tag='q')
            wro2_pre, iro2 = image(qro)
            b.E('check.equiv', ['@' + iro2, '@' + ie, '@' + wro2_pre, '@' + we_pre], t=dict(base_t, carrier='fit-after-refused-fit'), tag='c')
        # ---- carriers combined: a fitted pupil (per-segment tilt recorded) met by a wavefront that already carries tilt,
        #      and Tilt planes applied BEFORE the pupil ("all orderings of tilt elements in a plane chain")
        if rng.random() < 0.6 or force:
            pfs = b.E('Pupil', None, dict(pkw, opd='@' + o_rs, mask='@' + m), tag='p')
            qs = b.E('Plane.fit_tilt', ['@' + pfs], tag='q')
            wt2 = b.E('Wavefront', [ph['wl']], {'tilt': [gx, gy]}, tag='w')
            wcq_pre, icq = image(qs, wid=wt2)
            b.E('check.equiv', ['@' + icq, '@' + ie, '@' + wcq_pre, '@' + we_pre], t=dict(base_t, carrier='wavefront-tilt+fit'), tag='c')
            wcur = W0
            for j in order:
                wcur = b.E('Plane.multiply', ['@' + tids[j], '@' + wcur], t={'expect': 'ok'}, tag='w')
            wtq_pre, itq = image(qs if rng.random() < 0.6 else pb, wid=wcur)
            b.E('check.equiv', ['@' + itq, '@' + ie, '@' + wtq_pre, '@' + we_pre], t=dict(base_t, carrier='tilt-planes-before-pupil', permuted=True), tag='c')
            b.E('check.shift', ['@' + wcur, [['tilt', t[0], t[1]] for t in parts], z, du, os_],
                t={'n_elements': nel, 'square': square, 'kinds': 'tilt'}, tag='c')
        # ---- fan-out (history): ONE tilt-carrying wavefront is kept by the caller and sent through different Tilt planes;
        #      each branch must image like its own eager twin, whatever was multiplied before
        if rng.random() < 0.5 or force:
            src = rng.choice(['wavefront', 'fit'])
            if src == 'wavefront':
                w_keep = b.E('Wavefront', [ph['wl']], {'tilt': [gx, gy]}, tag='w')
                wk = b.E('Plane.multiply', ['@' + pb, '@' + w_keep], t={'expect': 'ok'}, tag='w')
                base_ramp = o_all
            else:
                pfk = b.E('Pupil', None, dict(pkw, opd='@' + o_all, mask='@' + m), tag='p')
                qk = b.E('Plane.fit_tilt', ['@' + pfk], tag='q')
                wk = b.E('Plane.multiply', ['@' + qk, '@' + W0], t={'expect': 'ok'}, tag='w')
                base_ramp = o_all
            for j in range(rng.randint(2, 3)):
                ax, ay = angle(dur) * 0.5, angle(duc) * 0.5
                tj = b.E('Tilt', None, {'x': ax, 'y': ay}, tag='t')
                wj = b.E('Plane.multiply', ['@' + tj, '@' + wk], t={'expect': 'ok'}, tag='w')
                ij = b.E('propagate_dft', ['@' + wj], dict(pk), t={'expect': 'ok'}, tag='w')
                rj = b.E('h.segment_ramp', ['@' + gm, [[ax, ay]], dx], tag='rj')
                oj = b.E('np.add', ['@' + base_ramp, '@' + rj], tag='o')
                pj = b.E('Pupil', None, dict(pkw, opd='@' + oj, mask='@' + gm), tag='p')
                wej, iej = image(pj)
                b.E('check.equiv', ['@' + ij, '@' + iej, '@' + wj, '@' + wej], t=dict(base_t, carrier='fan-out'), tag='c')
        # ---- carrier: fit, update the OPD, fit again (history)
        if rng.random() < 0.5 or force:
            oc = b.E('np.copy', ['@' + o_rs], tag='o') if rng.random() < 0.6 else b.E('h.layout', ['@' + o_rs, rng.choice(['F', 'T', 'strided', 'crop'])], tag='o')
            pr = b.E('Pupil', None, dict(pkw, opd='@' + oc, mask='@' + m), tag='p')
            prr = b.E('h.refit', ['@' + pr, '@' + rg, rng.choice(['setter', 'inplace'])], tag='q')
            oc2 = b.E('np.copy', ['@' + o_rs], tag='o')
            pr2 = b.E('Pupil', None, dict(pkw, opd='@' + oc2, mask='@' + m), tag='p')
            b.E('check.refit', ['@' + pr2, '@' + rg, rng.choice(['setter', 'inplace', 'inplace'])], t={'segmented': k > 1, 'history': 'fit-update-refit'}, tag='c')
            wr_pre, ir = image(prr)
            b.E('check.equiv', ['@' + ir, '@' + ie, '@' + wr_pre, '@' + we_pre], t=dict(base_t, carrier='refit', refit=True), tag='c')
        # ---- history: fit, rescale the fitted plane, its OPD gains new tilt, fit again -- the second fit is a fresh least-squares
        #      problem on the new grid (nothing learnt on the old grid applies)
        if rng.random() < 0.35 or force:
            o_h = b.E('np.copy', ['@' + o_all], tag='o')        # a private copy: the in-place form writes through to the array the plane views
            ph_ = b.E('Pupil', None, dict(pkw, opd='@' + o_h, mask='@' + m), tag='p')
            qh = b.E('Plane.fit_tilt', ['@' + ph_], {'inplace': rng.random() < 0.5}, tag='q')
            rh = b.E(rng.choice(['Plane.rescale', 'Plane.rescale', 'Plane.resample']), ['@' + qh, rng.choice([2.0, 1.5, 3.0])], tag='q')
            if b.events[-1]['fn'] == 'Plane.resample':
                b.events[-1]['a'][1] = (dx if isinstance(dx, float) else dx[0]) / b.events[-1]['a'][1]
                if not isinstance(dx, float):
                    b.events[-1]['fn'] = 'Plane.rescale'
                    b.events[-1]['a'][1] = 2.0
            b.E('check.tilt_kept', ['@' + qh, '@' + rh], tag='c')
            rh0 = b.E('h.add_ramp', ['@' + rh, gx * rng.uniform(0.3, 1.5), gy * rng.uniform(0.3, 1.5)], tag='q')
            rh1 = b.E('Plane.copy', ['@' + rh0], tag='q')
            rh2 = b.E('Plane.fit_tilt', ['@' + rh0], {'inplace': rng.random() < 0.5}, tag='q')
            b.E('check.fit', ['@' + rh1, '@' + rh2], t={'segmented': k > 1, 'history': 'fit-rescale-refit'}, tag='c')
        # ---- carrier: dispersive elements of first and higher order, red and blue of the reference wavelength (negative arc
        #      lengths); the twin carries the displacement of the statement's clause, solved independently, as an OPD ramp
        if (rng.random() < 0.6 or force) and mag != 'beyond':
            order = force.get('disp_order') or rng.choice(['1/1', '1/1', '2/1', '1/2', '2/2', '3/1'])
            tr_o, dp_o = (int(x) for x in order.split('/'))
            X = rng.choice([-1, 1]) * rng.uniform(0.3, 4) * duc / os_          # wanted displacement along x, metres
            d1 = rng.choice([1e-3, -2e-3, 1e-4])
            if tr_o == 1:
                tr = [rng.choice([0.0, 0.5, -1.2]), rng.choice([0.0, 2e-6])]
            elif tr_o == 2:
                tr = [rng.choice([2.0, 50.0, -30.0]), rng.choice([0.3, -1.0, 0.0]), rng.choice([0.0, 1e-6])]
            else:
                tr = [rng.choice([1e4, -3e4]), rng.choice([2.0, -20.0]), rng.choice([0.3, -0.7]), 0.0]
            dist = X * np.sqrt(1 + tr[-2] ** 2)                                 # arc length, to first order
            dp = [d1, ph['wl'] - d1 * dist] if dp_o == 1 else [rng.choice([0.5, 1e-3, -0.2]), d1, ph['wl'] - d1 * dist]
            if not dispersion_well_posed(dp, ph['wl']):
                dp = [d1, ph['wl'] - d1 * dist]
                dp_o = 1
                order = '%d/1' % tr_o
            dsp = b.E('DispersiveTilt', None, {'trace': tr, 'dispersion': dp}, tag='d')
            b.E('check.trace', ['@' + dsp, ph['wl']], tag='c')
            rd = b.E('h.dispersive_ramp', ['@' + gm, tr, dp, ph['wl'], z, dx], tag='rd')
            o_d = b.E('np.add', ['@' + o_all, '@' + rd], tag='o')
            ped = b.E('Pupil', None, dict(pkw, opd='@' + o_d, mask='@' + gm), tag='p')
            wed_pre, ied = image(ped)
            els = tids + [dsp]
            rng.shuffle(els)
            wpre_d, idd = image(pb, extra=els)
            high = tr_o > 1 or dp_o > 1
            b.E('check.equiv', ['@' + idd, '@' + ied, '@' + wpre_d, '@' + wed_pre], {'rtol': 1e-5} if high else None,
                t=dict(base_t, carrier='dispersive-high-order' if high else 'dispersive', permuted=True,
                       flags=flags + ['dispersive_' + ('blue' if dist * d1 < 0 else 'red'), 'dispersive_order:' + order]), tag='c')
            b.E('check.shift', ['@' + wpre_d, [['tilt', t[0], t[1]] for t in parts] + [['disp', tr, dp]], z, du, os_],
                t={'n_elements': nel + 1, 'square': square, 'kinds': 'tilt+dispersive' + ('-high-order' if high else '')}, tag='c')
            if rng.random() < 0.4 or force:
                # the owner re-points the element (new coefficients of the same order) after it has been used: it then answers like a
                # fresh element with those coefficients
                tr2 = [c_ * rng.choice([0.5, 1.5, -1.0]) if j_ < len(tr) - 1 else c_ for j_, c_ in enumerate(tr)]
                if tr2 == tr:
                    tr2 = [c_ * 0.5 if j_ < len(tr) - 1 else c_ for j_, c_ in enumerate(tr)]
                dsp2 = b.E('DispersiveTilt', None, {'trace': tr, 'dispersion': dp}, tag='d')
                b.E('check.trace', ['@' + dsp2, ph['wl']], tag='c')
                b.E('setattr', ['@' + dsp2, 'trace', {'$nd': tr2}], tag='s')
                b.E('check.trace', ['@' + dsp2, ph['wl']], t={'after_update': True}, tag='c')
                wdu = b.E('Plane.multiply', ['@' + dsp2, '@' + W0], t={'expect': 'ok'}, tag='w')
                b.E('check.shift', ['@' + wdu, [['disp', tr2, dp]], z, du, os_], t={'n_elements': 1, 'square': square, 'kinds': 'dispersive-updated'}, tag='c')
        # ---- higher-order dispersive elements: only the trace clause
        if rng.random() < 0.15 or force.get('high_order'):
            off = rng.choice([3e-9, 5e-8, -3e-9, -5e-8])
            d1 = rng.choice([1e-3, 1e-4, 1e-5, -1e-3])
            tr = rng.choice([[rng.choice([2.0, 50.0]), rng.choice([0.3, -1.0]), 0.0], [0.5, 0.0]])
            dp = rng.choice([[rng.choice([0.5, 1e-3]), d1, ph['wl'] - off], [d1, ph['wl'] - off]]) if len(tr) == 2 else \
                rng.choice([[d1, ph['wl'] - off], [rng.choice([0.5, 1e-3]), d1, ph['wl'] - off]])
            if len(tr) == 2 and len(dp) == 2:
                tr = [2.0, 0.3, 0.0]
            if not dispersion_well_posed(dp, ph['wl']):
                dp = [d1, ph['wl'] - off]
            if rng.random() < 0.4 or force.get('high_order'):
                # legal zero-padded coefficient lists: formally of higher order, effectively first order
                dz = b.E('DispersiveTilt', None, {'trace': [0.0, rng.choice([0.5, -1.2]), rng.choice([0.0, 1e-4])],
                                                 'dispersion': rng.choice([[d1, ph['wl'] - off], [0.0, d1, ph['wl'] - off]])}, tag='d')
                b.E('check.trace', ['@' + dz, ph['wl']], tag='c')
            dh = b.E('DispersiveTilt', None, {'trace': tr, 'dispersion': dp}, tag='d')
            b.E('check.trace', ['@' + dh, ph['wl']], tag='c')
        return b.events

    def generate(self, rng):
        world = {'shapes': {}, 'cache': rng.choice([32, 32, 0, 1, 2]), 'rng_seed': rng.randrange(2 ** 31), 'phys': self.phys(rng), 'K': 1}
        events = self.program(rng, world)
        out = []
        for e in events:
            out.append(e)
            if rng.random() < 0.02:
                out.append(rng.choice([{'env': 'cache_clear'}, {'env': 'cache', 'maxsize': rng.choice([0, 1, 2])}]))
        return {'scenario': self.name, 'world': world, 'events': out}

    def prelude(self, verif_seed):
        import random
        runs = []
        cases = [{'S': [7, 8], 'seg': True, 'square': True, 'mag': 'sub', 'nel': 3, 'os': 2, 'layout': 'F', 'disp_order': '2/1'},
                 {'S': [6, 9], 'seg': False, 'square': False, 'mag': 'small', 'nel': 2, 'os': 1, 'layout': 'strided', 'disp_order': '1/1', 'out_mask': True},
                 {'S': [8, 8], 'seg': True, 'square': False, 'mag': 'medium', 'nel': 3, 'os': 3, 'layout': 'T', 'disp_order': '1/2', 'pupil_px': 'per-axis', 'far_segment': True},
                 {'S': [5, 6], 'seg': False, 'square': True, 'mag': 'beyond', 'nel': 1, 'os': 1, 'layout': 'crop'},
                 {'S': [9, 7], 'seg': True, 'square': True, 'mag': 'small', 'nel': 3, 'os': 2, 'high_order': True, 'layout': 'crop', 'disp_order': '2/2'}]
        for j, force in enumerate(cases):
            for rep in range(2):
                rng = random.Random(verif_seed * 982451653 + j * 10 + rep)
                world = {'shapes': {}, 'cache': 32, 'rng_seed': 1, 'phys': self.phys(rng), 'K': 1}
                events = self.program(rng, world, force=force)
                runs.append({'scenario': self.name, 'world': world, 'events': events, 'run_index': -100 + j * 2 + rep, 'seed': 0})
        return runs

    def execute(self, L, run):
        it = Interp(L, run['world'], self.make_fns(), TiltHooks())
        it.run(run['events'])
        states = set()
        for p in it.probes:
            if p.startswith(('carrier:', 'trace_order:')) or p in ('subpixel_only', 'beyond_output', 'nonsquare_pixel', 'per_segment_tilt',
                                                                   'three_elements', 'no_common_samples'):
                states.add(p)
        return self.result(it, (), states)
