"""C15 -- integration, binning and resizing keep the spectrum well-formed (DESIGN.md 7.5).

An *editor* applies a seeded history of crop / trim / pad / append / resample / to on its
spectra; a *reader* (the same or another caller) issues integrate / bin / sample between any
two edits.  Refused edits (fault F5) are the analogue of a crash between two writes: the object
must not be left torn.  Expected post-states are predicted by the list model from the object's
own public pre-state.
"""
import copy

import numpy as np
import scipy.integrate

from ..core import Interp, Hooks
from ..models.canon_spectrum import MS, wellformed_obj, factor, DENSITY
from .base import Scenario

EDITS = ('Spectrum.crop', 'Spectrum.trim', 'Spectrum.pad', 'Spectrum.append', 'Spectrum.resample', 'Spectrum.to')
RTOL = 1e-9


def relclose(a, b, rtol=RTOL):
    a = np.asarray(a, dtype=float)
    b = np.asarray(b, dtype=float)
    if a.shape != b.shape:
        return False
    if a.size == 0:
        return True
    if not (np.all(np.isfinite(a)) and np.all(np.isfinite(b))):
        return False
    return bool(np.max(np.abs(a - b)) <= rtol * max(np.max(np.abs(b)), 1e-300))


def check_integrate(L, s, seed=0, method='trapz'):
    """Linearity, additivity at a sample point, and the trapezoid reference -- on the live object."""
    m = MS.of(s)
    out = {'premise': len(m.wave) >= 3 and m.wellformed(), 'n': len(m.wave)}
    if not out['premise']:
        return out
    g = np.random.Generator(np.random.PCG64(seed))
    S = L.radiometry.Spectrum
    v1 = np.asarray(m.value)
    v2 = g.uniform(0.0, 2.0, size=v1.size)
    a, b = float(g.uniform(-2, 2)), float(g.uniform(-2, 2))
    s2 = S(m.wave, v2, waveunit=m.unit, valueunit=m.vunit)
    s3 = S(m.wave, a * v1 + b * v2, waveunit=m.unit, valueunit=m.vunit)
    lo_i = int(g.integers(0, max(1, len(m.wave) - 2)))
    hi_i = int(g.integers(lo_i + 2, len(m.wave))) if lo_i + 2 < len(m.wave) else len(m.wave) - 1
    lo, hi = m.wave[lo_i], m.wave[hi_i]
    i1, i2, i3 = (x.integrate(lo, hi, method=method) for x in (s, s2, s3))
    # every tolerance is relative to the integral of |values| (the size of the terms that are summed), not to the result: signed data
    # can cancel to rounding noise, and two roundings of zero do not agree to nine digits
    absint = lambda vals, x0, x1: MS(m.wave, [abs(float(v)) for v in vals]).trapz(x0, x1)
    A1, A2 = absint(v1, lo, hi), absint(v2, lo, hi)
    scale = abs(a) * max(abs(i1), 1e-3 * A1) + abs(b) * max(abs(i2), 1e-3 * A2) + 1e-300
    out['linear'] = abs(i3 - (a * i1 + b * i2)) <= 1e-9 * scale
    out['linear_detail'] = 'I(a*v1+b*v2)=%r, a*I1+b*I2=%r (%s)' % (i3, a * i1 + b * i2, method)
    # additive over adjacent intervals that meet at a sample point (trapezoid rule)
    mid_i = int(g.integers(lo_i + 1, hi_i)) if hi_i - lo_i >= 2 else lo_i + 1
    mid = m.wave[mid_i]
    start = lo - float(g.uniform(0, 0.4)) * (m.wave[lo_i] - m.wave[lo_i - 1]) if lo_i > 0 and g.uniform() < 0.5 else lo
    whole = s.integrate(start, hi, method='trapz')
    parts = s.integrate(start, mid, method='trapz') + s.integrate(mid, hi, method='trapz')
    out['additive'] = abs(whole - parts) <= 1e-9 * (abs(whole) + abs(parts) + 1e-300) or abs(whole - parts) <= 1e-12 * absint(v1, min(start, lo), hi)
    out['additive_detail'] = 'I[%g,%g]=%r but I[..%g]+I[%g..]=%r' % (start, hi, whole, mid, mid, parts)
    # exact for piecewise-linear data with bounds at samples: the trapezoid sum itself
    ref = m.trapz(lo, hi)
    got = s.integrate(lo, hi, method='trapz')
    out['exact'] = abs(got - ref) <= 1e-9 * (abs(ref) + 1e-300) or abs(got - ref) <= 1e-12 * absint(v1, lo, hi)
    out['exact_detail'] = 'integrate(%g,%g,trapz)=%r, trapezoid sum of the samples=%r' % (lo, hi, got, ref)
    # default bounds = whole range
    full = s.integrate(method='trapz')
    out['defaults'] = abs(full - m.trapz()) <= 1e-9 * (abs(m.trapz()) + 1e-300) or abs(full - m.trapz()) <= 1e-12 * absint(v1, None, None)
    out['defaults_detail'] = 'integrate()=%r, trapezoid sum=%r' % (full, m.trapz())
    return out


class EditHooks(Hooks):
    prefix = 'C15'
    def __init__(self):
        self.pre = None
        self.others = None
        self.bad = set()
        self.first = {}         # query id -> (copy of the answer, digest of the spectrum it was asked about)

    def before(self, it, i, ev):
        self.pre = None
        fn = ev['fn']
        self.others = None
        if fn in EDITS or fn in ('Spectrum.sample', 'Spectrum.integrate', 'Spectrum.bin'):
            tgt = ev['a'][0][1:] if isinstance(ev['a'][0], str) else None
            self.others = {k: it.dig(v) for k, v in it.store.items() if k != tgt}
        if (fn.startswith('Spectrum.') or fn == 'h.crop_ulp') and ev.get('a'):
            tgt = it.resolve(ev['a'][0])
            if not wellformed_obj(tgt)[0]:
                return      # already reported when it broke; nothing further is judged on a torn object
            pre = {'target': MS.of(tgt)}
            if fn == 'Spectrum.append':
                o = it.resolve(ev['a'][1])
                if isinstance(o, it.L.radiometry.Spectrum):
                    pre['other'] = MS.of(o)
            self.pre = pre

    def after(self, it, i, ev, out):
        fn = ev['fn']
        L = it.L
        tag = ev.get('t', {})
        # ---- the invariant, after EVERY step, on EVERY spectrum the callers hold
        for k, v in it.store.items():
            if isinstance(v, L.radiometry.Spectrum):
                it.probe('check:wellformed')
                ok, why = wellformed_obj(v)
                if ok:
                    self.bad.discard(k)
                elif k not in self.bad:
                    # reported once, at the step that broke the invariant
                    self.bad.add(k)
                    if k == ev.get('id') and any(r in self.bad for r in it.event_refs(ev)):
                        continue    # born from an already torn operand: not a new finding
                    it.violate('C15.wellformed', {'call': fn, 'after': 'ok' if out.ok else 'refused'},
                               'after %s %s the spectrum %s is malformed: %s'
                               % ('a successful' if out.ok else 'a refused', fn, k, why), i)
        if tag.get('reasked'):
            it.fault('dup')
            it.probe('query_repeated_after_edit')
            if tag.get('foreign_unit'):
                it.probe('foreign_unit_query_repeated_after_edit')
            if tag.get('after_value_assignment'):
                it.probe('query_repeated_after_value_assignment')
        if tag.get('one_option_flipped'):
            it.probe('bin_one_option_flipped')
            it.fault('dup')
        if fn in ('Spectrum.bin', 'Spectrum.sample') and out.ok and isinstance(out.value, np.ndarray):
            tgt_d = it.dig(it.resolve(ev['a'][0]))
            again = tag.get('again')
            if again is not None and again in self.first and self.first[again][1] == tgt_d:
                # the caller scaled the array it was handed (flux *= qe) and asks the same question again about the same spectrum
                it.probe('query_repeated_after_caller_write')
                it.probe('check:repeat')
                it.fault('caller_write')
                ref = self.first[again][0]
                if ref.shape != out.value.shape or not np.array_equal(ref, out.value, equal_nan=True):
                    it.violate('C15.bin' if fn == 'Spectrum.bin' else 'C15.retain', {'call': fn, 'what': 'repeat-differs-after-caller-write'},
                               'the same %s on the unchanged spectrum gave a different answer after the caller wrote into the array the '
                               'first call returned' % fn, i)
            self.first[ev['id']] = (np.array(out.value, copy=True), tgt_d)
        if self.others is not None:
            it.probe('check:bystanders')
            for k, d in self.others.items():
                if k in it.store and k != ev.get('id') and it.dig(it.store[k]) != d:
                    if k.endswith(('_twin', '_x2', '_w', '_v')):
                        it.probe('shared_buffer_bystander')
                    it.violate('C15.retain', {'call': fn, 'what': 'bystander-changed', 'kind': type(it.store[k]).__name__},
                               '%s on one spectrum changed %s %s, which was not its target' % (fn, type(it.store[k]).__name__, k), i)
                    break
        if fn == 'h.pad_nonfinite':
            it.probe('nonfinite_pad')
        if fn in EDITS and not out.ok:
            it.fault('refuse')
            it.probe('refused:' + fn.split('.')[1])
        if tag.get('expect') == 'refuse' and fn in EDITS:
            it.probe('check:refusal')
            must = tag.get('must_refuse')
            if self.pre is None:
                must = False        # target already torn (reported when it broke)
            elif fn == 'Spectrum.append' and 'other' in self.pre:
                # premise from the live pre-state: same unit, and the appended grid does not strictly follow
                o, p0 = self.pre['other'], self.pre['target']
                must = bool(o.unit == p0.unit and o.wave and p0.wave and o.wave[0] <= p0.wave[-1])
            if out.ok and must:
                it.violate('C15.wellformed', {'call': fn, 'after': 'accepted-invalid'},
                           '%s accepted an argument that cannot yield a well-formed spectrum (%s)' % (fn, tag.get('why')), i)
        if self.pre is None:
            return
        pre = self.pre['target']
        tgt = it.resolve(ev['a'][0])
        if not wellformed_obj(tgt)[0]:
            return
        post = MS.of(tgt)
        a = [it.resolve(x) for x in ev.get('a', [])[1:]]
        k = {kk: it.resolve(x) for kk, x in ev.get('k', {}).items()}
        if fn == 'Spectrum.crop' and len(pre.crop(a[0], a[1]).wave) == 0:
            # nothing lies inside the closed range.  The statement does not say whether such a call succeeds; it does say what may be
            # retained: an accepted call keeps exactly the samples inside the range (none), a refused one may leave the object as it was
            it.probe('crop:disjoint')
            it.probe('check:retain')
            if out.ok and len(post.wave) > 0:
                it.violate('C15.retain', {'call': fn, 'what': 'closed-range', 'cut': 'disjoint'},
                           'crop(%r, %r) of %s was accepted and kept %s although no sample lies inside the closed range' % (a[0], a[1], pre.wave, post.wave), i)
            elif not out.ok and len(post.wave) > 0 and not post.same(pre, rtol=0):
                it.violate('C15.retain', {'call': fn, 'what': 'refused-edit-changed-object'},
                           'refused crop(%r, %r) left %s (was %s)' % (a[0], a[1], post.wave, pre.wave), i)
            return
        if fn == 'h.crop_ulp':
            if out.ok and out.value is None:
                return
            it.probe('crop:ulp')
            if out.ok:
                it.probe('check:retain')
                lo_, hi_ = out.value
                exp = pre.crop(lo_, hi_)
                if len(exp.wave) and not post.same(exp, rtol=0):
                    it.violate('C15.retain', {'call': 'Spectrum.crop', 'what': 'closed-range', 'cut': 'ulp'},
                               'crop(%r, %r) of %s kept %s, closed range holds %s' % (lo_, hi_, pre.wave, post.wave, exp.wave), i)
            elif not post.same(pre, rtol=0):
                it.violate('C15.retain', {'call': 'Spectrum.crop', 'what': 'refused-edit-changed-object'}, 'refused crop changed the spectrum', i)
            return
        if fn in EDITS and not out.ok:
            # an edit whose arguments are valid for the live pre-state must be carried out
            valid = None
            if not pre.wave:
                valid = None
            elif fn == 'Spectrum.crop':
                valid = True
            elif fn == 'Spectrum.pad' and len(pre.wave) >= 2 and k.get('mode', 'constant') in ('constant', 'edge'):
                e = [float(x) for x in a[0]]
                vals = np.asarray(k.get('values', 0))
                valid = (len(e) == 2 and 0 < e[0] < pre.wave[0] and e[1] > pre.wave[-1] and vals.dtype.kind in 'fiu' and vals.size in (1, 2)
                         and vals.ndim <= 1)
            elif fn == 'Spectrum.trim':
                valid = bool(pre.value) and max(pre.value) > 0
            elif fn == 'Spectrum.to':
                valid = a[0] in ('m', 'um', 'nm', 'angstrom')
            elif fn == 'Spectrum.append' and 'other' in self.pre:
                o = self.pre['other']
                valid = o.unit == pre.unit and bool(o.wave) and bool(pre.wave) and o.wave[0] > pre.wave[-1] and MS(o.wave, o.value).wellformed()
            elif fn == 'Spectrum.resample':
                g = np.asarray(a[0], dtype=float).ravel()
                valid = (g.size >= 2 and np.all(g > 0) and np.all(np.diff(g) > 0) and k.get('waveunit', 'nm') in ('m', 'um', 'nm', 'angstrom')
                         and k.get('method', 'linear') in ('linear', 'quadratic', 'cubic') and len(pre.wave) >= 4)
            if valid:
                # Not a violation: the statement constrains what an edit may leave behind, it does not promise that a
                # valid edit is accepted (e.g. append refuses any strictly-following spectrum of a different length,
                # leaving the object intact).  Counted so that the evidence shows how often it happens.
                it.probe('valid_edit_refused:' + fn.split('.')[1])
            it.probe('check:refusal_atomic')
            if not post.same(pre, rtol=0):
                it.violate('C15.retain', {'call': fn, 'what': 'refused-edit-changed-object'},
                           'refused %s (%r) changed the spectrum' % (fn, out.exc), i)
            return
        if not out.ok:
            return
        if fn == 'Spectrum.crop':
            it.probe('check:retain')
            exp = pre.crop(a[0], a[1])
            if len(exp.wave) == 0:
                return
            where = tag.get('cut', 'any')
            it.probe('crop:' + where)
            if not post.same(exp, rtol=0):
                it.violate('C15.retain', {'call': fn, 'what': 'closed-range', 'cut': where},
                           'crop(%r, %r) of %s kept %s, closed range holds %s' % (a[0], a[1], pre.wave, post.wave, exp.wave), i)
        elif fn == 'Spectrum.trim':
            it.probe('check:retain')
            if pre.value and max(pre.value) <= 0 and any(v != 0 for v in pre.value):
                return
            tol = a[0] if a else k.get('tol', 1e-4)
            exp = pre.trim(tol)
            if not post.same(exp, rtol=0):
                it.violate('C15.retain', {'call': fn, 'what': 'first-to-last-above-tol'},
                           'trim(%r) of values %s kept %s, expected %s' % (tol, pre.value, post.value, exp.value), i)
        elif fn == 'Spectrum.append':
            it.probe('check:retain')
            if 'other' not in self.pre:
                return
            exp = pre.append(self.pre['other'])
            res = MS.of(out.value) if k.get('copy') else post
            if k.get('copy') and not post.same(pre, rtol=0):
                it.violate('C15.retain', {'call': fn, 'what': 'copy-changed-original'}, 'append(copy=True) changed the original', i)
            if not res.same(exp, rtol=0):
                it.violate('C15.retain', {'call': fn, 'what': 'concatenation'},
                           'append: got wave %s, expected %s' % (res.wave, exp.wave), i)
        elif fn == 'Spectrum.pad':
            it.probe('check:retain')
            self._check_pad(it, i, pre, post, a, k, tag)
        elif fn == 'Spectrum.resample':
            it.probe('check:resample')
            unit = k.get('waveunit', 'nm')
            new = [float(x) for x in np.asarray(a[0], dtype=float).ravel()]
            if post.unit != unit or not np.array_equal(post.wave, new):
                it.violate('C15.retain', {'call': fn, 'what': 'grid'}, 'resample did not adopt the requested grid/unit', i)
                return
            src = pre.to(unit)
            if k.get('method', 'linear') == 'linear':
                exp = src.interp(new, k.get('fill_value', 0))
                if not relclose(post.value, exp):
                    it.violate('C15.retain', {'call': fn, 'what': 'values'},
                               'resample values %s, linear interpolation of the old samples gives %s' % (post.value, exp.tolist()), i)
            else:
                # any interpolant reproduces the samples it retains -- to the accuracy the spline system allows: two samples a few
                # ulp apart (a pad end that a unit conversion left one rounding outside the old range) make it singular in practice
                dsrc = np.diff(np.asarray(src.wave, dtype=float))
                if dsrc.size and dsrc.min() < 1e-6 * dsrc.max():
                    it.probe('spline_on_near_duplicate_samples')
                    return
                for w, v in zip(post.wave, post.value):
                    for w0, v0 in zip(src.wave, src.value):
                        if w == w0 and abs(v - v0) > 1e-9 * max(abs(np.asarray(src.value))):
                            it.violate('C15.retain', {'call': fn, 'what': 'node-values'},
                                       'resample(method=%s) changed the retained sample at %g: %r -> %r' % (k.get('method'), w, v0, v), i)
                            return
        elif fn == 'Spectrum.to':
            it.probe('check:to')
            unit = a[0]
            if unit in ('m', 'um', 'nm', 'angstrom'):
                exp = pre.to(unit)
                if not post.same(exp, rtol=1e-12):
                    it.violate('C15.retain', {'call': fn, 'what': 'rescale'}, 'to(%s): got %s/%s expected %s/%s'
                               % (unit, post.wave, post.value, exp.wave, exp.value), i)
        elif fn == 'Spectrum.sample':
            it.probe('check:sample')
            unit = k.get('waveunit', 'nm')
            if k.get('method', 'linear') == 'linear':
                exp = pre.to(unit).interp(a[0], k.get('fill_value', 0))
                if not relclose(out.value, exp):
                    it.violate('C15.query', {'call': fn}, 'sample gave %s, model %s' % (np.asarray(out.value).tolist(), exp.tolist()), i)
        elif fn == 'Spectrum.integrate':
            it.probe('check:integrate')
            if k.get('method', 'simps') == 'trapz':
                ref = pre.trapz(k.get('start'), k.get('end'))
                # (relative to the result, or -- for signed data that cancels -- to the integral of |values|)
                absref = MS(pre.wave, [abs(v) for v in pre.value]).trapz(k.get('start'), k.get('end'))
                if abs(out.value - ref) > 1e-9 * (abs(ref) + 1e-300) and abs(out.value - ref) > 1e-12 * absref:
                    it.violate('C15.integrate', {'what': 'trapezoid'}, 'integrate(%s)=%r, trapezoid sum %r' % (k, out.value, ref), i)
        elif fn == 'Spectrum.bin':
            self._check_bin(it, i, pre, a, k, tag, out.value)
        # queries leave the object alone (representation included)
        if fn in ('Spectrum.sample', 'Spectrum.integrate', 'Spectrum.bin', 'Spectrum.asarray', 'Spectrum.ends'):
            if not post.same(pre, rtol=0):
                it.violate('C15.retain', {'call': fn, 'what': 'query-changed-object'}, '%s changed the spectrum it was asked about' % fn, i)

    def _check_pad(self, it, i, pre, post, a, k, tag):
        ends = [float(x) for x in a[0]]
        it.probe('pad:' + tag.get('where', 'any'))
        n0 = len(pre.wave)
        # the old samples are retained, contiguous and unaltered
        try:
            j = post.wave.index(pre.wave[0])
        except ValueError:
            it.violate('C15.retain', {'call': 'Spectrum.pad', 'what': 'old-samples-lost'}, 'first old sample missing after pad', i)
            return
        if post.wave[j:j + n0] != pre.wave or post.value[j:j + n0] != pre.value:
            it.violate('C15.retain', {'call': 'Spectrum.pad', 'what': 'old-samples-altered'},
                       'pad altered retained samples: %s -> %s' % (list(zip(pre.wave, pre.value)), list(zip(post.wave, post.value))), i)
            return
        left, right = post.wave[:j], post.wave[j + n0:]
        if any(w >= pre.wave[0] for w in left) or any(w <= pre.wave[-1] for w in right):
            it.violate('C15.retain', {'call': 'Spectrum.pad', 'what': 'added-inside-old-range'}, 'pad added samples inside the old range', i)
            return
        if ends[0] < pre.wave[0] and (not left or left[0] != ends[0]):
            it.violate('C15.retain', {'call': 'Spectrum.pad', 'what': 'end-not-reached'}, 'pad to %r starts at %r' % (ends[0], post.wave[0]), i)
        if ends[1] > pre.wave[-1] and (not right or right[-1] != ends[1]):
            it.violate('C15.retain', {'call': 'Spectrum.pad', 'what': 'end-not-reached'}, 'pad to %r stops at %r' % (ends[1], post.wave[-1]), i)
        mode = k.get('mode', 'constant')
        if mode == 'constant':
            vals = k.get('values', 0)
            vals = [vals, vals] if np.ndim(vals) == 0 else list(vals)
        else:
            vals = [pre.value[0], pre.value[-1]]
        lv, rv = post.value[:j], post.value[j + n0:]
        if any(v != vals[0] for v in lv) or any(v != vals[1] for v in rv):
            it.violate('C15.retain', {'call': 'Spectrum.pad', 'what': 'pad-values'}, 'padded values %s / %s, expected %s' % (lv, rv, vals), i)

    def _check_bin(self, it, i, pre, a, k, tag, got):
        centres = np.asarray(a[0], dtype=float)
        method = k.get('interp_method', 'simps')
        ends = k.get('ends', 'symmetric')
        pp = k.get('preserve_power', True)
        it.probe('check:bin')
        it.probe('bin:%s/%s/%s' % (method, ends, 'pp' if pp else 'raw'))
        got = np.asarray(got, dtype=float)
        sig = {'method': method, 'ends': ends, 'preserve_power': bool(pp)}
        if got.shape != centres.shape:
            it.violate('C15.bin', dict(sig, what='one-value-per-centre'), 'bin returned shape %s for %d centres' % (got.shape, centres.size), i)
            return
        src = pre.to(k.get('waveunit', 'nm'))
        vmax = max(abs(np.asarray(src.value))) if src.value else 0.0
        uniform_c = np.allclose(np.diff(centres), np.diff(centres)[0], rtol=1e-9, atol=0)
        uniform_d = len(src.wave) < 3 or np.allclose(np.diff(src.wave), np.diff(src.wave)[0], rtol=1e-9, atol=0)
        if method == 'simps' and not (uniform_c and uniform_d):
            return      # the statement quantifies Simpson binning over uniform centres and uniformly sampled data only
        nonneg = all(v >= 0 for v in src.value)
        if pp and nonneg:
            # normalising a zero total is 0/0: ill-posed, not judged (soundness rule 4)
            inside = [v for w, v in zip(src.wave, src.value) if centres[0] <= w <= centres[-1]]
            d0 = np.diff(centres) / 2
            # the points the documented algorithm samples: bin edges (and, for Simpson, the centres)
            if ends == 'symmetric':
                pts = np.concatenate([[centres[0] - d0[0]], centres[:-1] + d0, [centres[-1] + d0[-1]]])
            else:
                pts = np.concatenate([[centres[0]], centres[:-1] + d0, [centres[-1]]])
            if method == 'simps':
                pts = np.concatenate([pts, centres])
            seen = src.interp(pts, k.get('fill_value', 0))
            if len(inside) < 2 or max(inside) <= 0 or np.max(np.abs(seen)) == 0:
                it.probe('bin_zero_power')
                return
        if nonneg and k.get('sample_method', 'linear') == 'linear':
            if np.any(got < -1e-12 * vmax * (centres[-1] - centres[0])) or not np.all(np.isfinite(got)):
                it.violate('C15.bin', dict(sig, what='non-negative'), 'non-negative spectrum binned to %s' % got.tolist(), i)
        if tag.get('linear') is not None and not pp:
            # data a + b*w, every bin edge inside the sampled range: each bin is the exact integral
            c0, c1 = tag['linear']
            d = np.diff(centres) / 2
            mids = centres[:-1] + d
            if ends == 'symmetric':
                edges = np.concatenate([[centres[0] - d[0]], mids, [centres[-1] + d[-1]]])
            else:
                edges = np.concatenate([[centres[0]], mids, [centres[-1]]])
            is_linear = np.allclose(src.value, c0 + c1 * np.asarray(src.wave), rtol=1e-9, atol=0)
            if is_linear and edges[0] >= src.wave[0] and edges[-1] <= src.wave[-1]:
                it.probe('bin_linear_exact')
                exp = c0 * np.diff(edges) + 0.5 * c1 * np.diff(edges ** 2)
                if not relclose(got, exp, 1e-8):
                    it.violate('C15.bin', dict(sig, what='exact-for-linear'), 'linear spectrum: bins %s, exact integrals %s' % (got.tolist(), exp.tolist()), i)
        if pp and tag.get('on_samples'):
            # bins sum to the integral over the span of the centres (centres end on sample points)
            pts = [(w, v) for w, v in zip(src.wave, src.value) if centres[0] <= w <= centres[-1]]
            if len(pts) >= 2:
                x = np.array([p[0] for p in pts])
                y = np.array([p[1] for p in pts])
                ref = np.trapz(y, x) if method == 'trapz' else scipy.integrate.simpson(y=y, x=x)
                if abs(ref) > 1e-9 * vmax * (x[-1] - x[0]):
                    it.probe('bin_power')
                    if abs(np.sum(got) - ref) > 1e-8 * abs(ref):
                        it.violate('C15.bin', dict(sig, what='preserve-power'),
                                   'bins sum to %r, integral over the span of the centres is %r' % (float(np.sum(got)), float(ref)), i)


class SpectrumEditScenario(Scenario):
    name = 'spectrum_edit'
    prop = 'C15'
    quick_runs = 3000
    thorough_runs = 300000
    audit_every = 16
    rule = ('each run = 1-2 callers; an editor applies a seeded history (4..25 steps) of crop/trim/pad/append/resample/to to 1-3 spectra '
            '(uniform or non-uniform grids, unitless or flux-density values, linear or random non-negative data), a reader issues '
            'integrate/bin/sample/composite integrate checks between edits; a seeded fraction of edits must be refused (invalid resample '
            'grid, overlapping append, bad unit, ...) and accepted edits are duplicated (idempotence); further workload ingredients added by the seeded rounds are listed in MANIFEST.json and DESIGN.md section 15; distinct = distinct history '
            'digest; non-trivial = at least one refusal or duplicate fired and at least one model comparison was made')
    state_measure = 'distinct (edit kind, cut/pad position class, outcome) and bin option combinations reached'
    assumptions = ['edit arguments are generated either exactly on a sample value or clearly between samples, so closed-range and tolerance '
                   'decisions never depend on rounding (soundness rule 3); the deliberate exception -- crop limits a few ulp from a sample -- takes '
                   'its limits and its expectation from the live samples, so the exact closed range is what is judged',
                   'empty-result crops and empty resample grids are not generated (the statement does not define them)',
                   'bin-centre sets for the power-preservation clause start and end on sample points; Simpson bins are judged for sign only on '
                   'uniform centres over uniformly sampled data with linear sampling, as the statement says',
                   'scipy.integrate.simpson is trusted as the reference for Simpson totals']
    must_hit = ['crop:ulp', 'nonfinite_pad', 'integer_wavelength_grid', 'refused:resample', 'refused:append', 'crop:at-sample', 'crop:between', 'pad:inside', 'pad:outside',
                'bin:trapz/symmetric/pp', 'bin:trapz/inside/raw', 'bin:simps/symmetric/raw', 'bin:simps/inside/pp',
                'bin_linear_exact', 'bin_power', 'nonuniform_grid', 'idem', 'query_repeated_after_edit', 'shared_buffers',
                'query_repeated_after_caller_write', 'foreign_unit_query_repeated_after_edit', 'bin_one_option_flipped', 'crop:disjoint', 'query_repeated_after_value_assignment']
    probe_names = must_hit + ['coldwarm_audit', 'refused:to', 'refused:pad', 'refused:trim', 'refused:crop']

    def make_fns(self):
        fns = dict(self.fns)
        fns['check.integrate'] = check_integrate
        return fns

    # ---------------------------------------------------------------- generation
    def new_spectrum(self, rng, c, sid, events, models, force=None):
        force = force or {}
        n = force.get('n') or rng.randint(4, 12)
        uniform = force.get('uniform', rng.random() < 0.5)
        unit = force.get('unit') or rng.choice(['nm', 'nm', 'um', 'angstrom'])
        start = rng.choice([400, 500, 650])
        if uniform:
            step = rng.choice([5, 10, 25])
            wave = [start + step * i for i in range(n)]
        else:
            wave = [start]
            for _ in range(n - 1):
                wave.append(wave[-1] + rng.choice([2, 5, 7, 10, 20]))
        f = factor('nm', unit)
        wave = [w * f for w in wave]
        linear = force.get('linear', rng.random() < 0.35)
        if linear:
            c0 = round(rng.uniform(0.5, 2.0), 3)
            c1 = round(rng.uniform(0.0, 0.5), 3) / (wave[-1] - wave[0])
            value = [c0 + c1 * w for w in wave]
            lin = [c0, c1]
        else:
            signed = rng.random() < 0.2         # background-subtracted data: negative samples, in the wings too
            value = [round(rng.uniform(-0.6 if signed else 0.0, 1.0), 3) for _ in wave]
            lin = None
            if rng.random() < 0.4:      # near-zero wings so that trim has something to do
                k = rng.randint(1, max(1, n // 3))
                for j in range(k):
                    value[j] = rng.choice([0.0, 1e-7])
                    value[-1 - j] = rng.choice([0.0, 1e-6])
            if max(value) <= 0:
                value[n // 2] = 0.7
        vunit = rng.choice([None, None, 'photlam', 'wlam'])
        if force.get('shared') or rng.random() < 0.35:
            # F8: the caller keeps its own ndarrays and builds TWO spectra on them; an edit of one must not reach the
            # other spectrum nor the caller's arrays
            events.append({'c': c, 'fn': 'array', 'id': sid + '_w', 'recipe': {'kind': 'list', 'values': wave}})
            events.append({'c': c, 'fn': 'array', 'id': sid + '_v', 'recipe': {'kind': 'list', 'values': value}})
            events.append({'c': c, 'fn': 'Spectrum', 'id': sid, 'a': ['@' + sid + '_w', '@' + sid + '_v'], 'k': {'waveunit': unit, 'valueunit': vunit}})
            events.append({'c': c, 'fn': 'Spectrum', 'id': sid + '_twin', 'a': ['@' + sid + '_w', '@' + sid + '_v'], 'k': {'waveunit': unit, 'valueunit': vunit}})
            events.append({'c': c, 'fn': 's*', 'id': sid + '_x2', 'a': ['@' + sid, 2.0]})
        elif unit == 'nm' and rng.random() < 0.3:
            # a grid typed in as whole nanometres: an integer-typed wavelength array
            events.append({'c': c, 'fn': 'Spectrum', 'id': sid, 'a': [[int(w) for w in wave], value], 'k': {'waveunit': unit, 'valueunit': vunit},
                           't': {'integer_grid': True}})
        else:
            events.append({'c': c, 'fn': 'Spectrum', 'id': sid, 'a': [wave, value], 'k': {'waveunit': unit, 'valueunit': vunit}})
        m = MS(wave, value, unit, vunit)
        m.lin = lin
        m.uniform = uniform
        models[sid] = m
        return m

    def edit(self, rng, c, sid, m, events, models, counter):
        """Append one edit (maybe one that must be refused) to `events`, updating the generator's model."""
        kind = rng.choices(['crop', 'trim', 'pad', 'append', 'resample', 'to'], [3, 2, 3, 2, 3, 2])[0]
        ref = '@' + sid
        w = m.wave
        refuse = rng.random() < 0.3

        def E(fn, a, k=None, t=None, **extra):
            counter[0] += 1
            e = {'c': c, 'fn': fn, 'a': a, 'id': 'c%d_e%d' % (c, counter[0])}
            if k:
                e['k'] = k
            if t:
                e['t'] = t
            e.update(extra)
            events.append(e)
            return e

        if kind == 'crop' and len(w) >= 4:
            i = rng.randint(0, len(w) - 3)
            j = rng.randint(i + 1, len(w) - 1)
            how = rng.choice(['at-sample', 'between', 'outside'])
            if how == 'at-sample':
                lo, hi = w[i], w[j]
            elif how == 'between':
                lo = (w[i] + w[i + 1]) / 2 if i + 1 <= j else w[i]
                hi = (w[j - 1] + w[j]) / 2 if j - 1 > i else w[j]
                if not any(lo <= x <= hi for x in w):
                    lo, hi = w[i], w[j]
                    how = 'at-sample'
            else:
                lo, hi = w[0] - abs(w[1] - w[0]), (w[j] if rng.random() < 0.5 else w[-1] + 1.0)
            if rng.random() < 0.04:
                # a window that misses the grid altogether (requesting a second, disjoint band from what an earlier crop left): nothing
                # inside the closed range.  The last thing done to this spectrum (its model goes empty, so it is left alone afterwards)
                span = w[-1] - w[0]
                r_ = rng.random()
                if r_ < 0.35:
                    lo, hi = w[-1] + 0.25 * span, w[-1] + 0.75 * span
                elif r_ < 0.7:
                    lo, hi = max(w[0] * 0.25, w[0] - 0.75 * span), max(w[0] * 0.5, w[0] - 0.25 * span)
                else:
                    g_ = rng.randint(0, len(w) - 2)         # strictly between two neighbouring samples: inside the range, holding none
                    lo, hi = w[g_] + 0.3 * (w[g_ + 1] - w[g_]), w[g_] + 0.7 * (w[g_ + 1] - w[g_])
                if hi < w[0] or lo > w[-1] or not any(lo <= x <= hi for x in w):
                    how = 'disjoint'
                else:
                    lo, hi = w[i], w[j]
                    how = 'at-sample'
            e = E('Spectrum.crop', [ref, lo, hi], t={'cut': how}, inplace=[ref])
            new = m.crop(lo, hi)
            m.wave, m.value = new.wave, new.value
            return e
        if kind == 'trim':
            mx = max(m.value) if m.value else 0
            if mx > 0:
                ratios = sorted({v / mx for v in m.value if v > 0})
                cands = [1e-9] + [(a + b) / 2 for a, b in zip(ratios, ratios[1:])]
                tol = rng.choice(cands + [1e-4])
                if any(abs(v / mx - tol) < 1e-9 * max(tol, 1e-30) for v in m.value):
                    tol = 1e-9 if all(abs(v / mx - 1e-9) > 1e-12 for v in m.value) else 0.5e-9
            else:
                tol = 1e-4
            e = E('Spectrum.trim', [ref, tol], inplace=[ref])
            if mx > 0:
                new = m.trim(tol)
                m.wave, m.value = new.wave, new.value
            return e
        if kind == 'pad' and len(w) >= 2:
            dw = min(b - a for a, b in zip(w, w[1:]))
            where = rng.choice(['outside', 'outside', 'inside', 'equal', 'deep-inside'])
            if where == 'outside':
                ends = [w[0] - dw * rng.choice([0.5, 1, 2.5, 3]), w[-1] + dw * rng.choice([0.5, 1, 2.5, 4])]
            elif where == 'inside':
                ends = [w[0] + 0.4 * dw, w[-1] - 0.4 * dw]
            elif where == 'equal':
                ends = [w[0], w[-1] + dw * rng.choice([0, 1.5])]
            else:
                ends = [w[0] + 1.6 * dw, w[-1]]
            if ends[0] <= 0:
                ends[0] = w[0] / 2
            k = {}
            if rng.random() < 0.5:
                k['mode'] = rng.choice(['constant', 'edge'])
            if k.get('mode', 'constant') == 'constant' and rng.random() < 0.5:
                k['values'] = rng.choice([0.25, [0.1, 0.2]])
            if rng.random() < 0.3:
                k['sampling'] = dw * rng.choice([0.5, 1.0, 2.0])
            if refuse and rng.random() < 0.5:
                # an argument pad cannot honour (whatever point of the call notices it): the spectrum stays as it was
                why = rng.choice(['mode', 'mode', 'values-length', 'values-type', 'ends-length'])
                if why == 'mode':
                    k['mode'] = rng.choice(['reflect', 'linear_ramp', 'bogus'])
                    k.pop('values', None)
                elif why == 'values-length':
                    k['mode'] = 'constant'
                    k['values'] = [rng.choice([0.0, 0.3])]
                elif why == 'values-type':
                    k['mode'] = 'constant'
                    k['values'] = 'lots'
                else:
                    ends = [ends[0]]
                return E('Spectrum.pad', [ref, ends], k, t={'expect': 'refuse', 'why': 'pad-' + why}, inplace=[ref])
            e = E('Spectrum.pad', [ref, ends], k, t={'where': 'inside' if where in ('inside', 'equal', 'deep-inside') else 'outside'},
                  inplace=[ref])
            # generator's prediction of the new grid (same formulas; only used to aim later edits)
            sampling = k.get('sampling', dw)
            try:
                nl = int(np.ceil((w[0] - ends[0]) / sampling)) + 1
                nr = int(np.ceil((ends[1] - w[-1]) / sampling)) + 1
                lw = list(np.linspace(ends[0], w[0], nl))[:-1]
                rw = list(np.linspace(w[-1], ends[1], nr))[1:]
                vals = k.get('values', 0)
                vals = [vals, vals] if np.ndim(vals) == 0 else vals
                if k.get('mode') == 'edge':
                    vals = [m.value[0], m.value[-1]]
                if nl >= 1 and nr >= 1:
                    m.wave = [float(x) for x in lw] + m.wave + [float(x) for x in rw]
                    m.value = [float(vals[0])] * len(lw) + m.value + [float(vals[1])] * len(rw)
            except Exception:
                pass
            return e
        if kind == 'append':
            oid = 'c%d_o%d' % (c, counter[0] + 1)
            n = rng.randint(1, 4)
            dw = abs(w[-1] - w[0]) / max(1, len(w) - 1) if len(w) > 1 else w[0] * 0.01
            if refuse:
                how = rng.choice(['touching', 'overlapping', 'inside', 'not-a-spectrum'])
                first = {'touching': w[-1], 'overlapping': w[-1] - 0.5 * dw, 'inside': w[0] + 0.3 * dw}.get(how, w[-1] + dw)
            else:
                how = 'following'
                first = w[-1] + dw * rng.choice([0.5, 1, 3])
            ow = [first + dw * j for j in range(n)]
            ov = [round(rng.uniform(0, 1), 3) for _ in ow]
            counter[0] += 1
            events.append({'c': c, 'fn': 'Spectrum', 'id': oid, 'a': [ow, ov], 'k': {'waveunit': m.unit, 'valueunit': m.vunit}})
            cp = rng.random() < 0.3
            other = '@' + oid if how != 'not-a-spectrum' else [1.0, 2.0]
            e = E('Spectrum.append', [ref, other], {'copy': cp} if cp or rng.random() < 0.5 else None,
                  t={'expect': 'refuse' if refuse else 'ok', 'must_refuse': refuse, 'why': how}, inplace=[ref])
            if not refuse and not cp:
                m.wave, m.value = m.wave + ow, m.value + ov
            return e
        if kind == 'resample':
            unit = rng.choice([m.unit, m.unit, 'nm', 'um'])
            f = factor(m.unit, unit)
            lo, hi = w[0] * f, w[-1] * f
            n = rng.randint(2, 9)
            grid = sorted({lo + (hi - lo) * rng.uniform(-0.2, 1.2) for _ in range(n)})
            grid = [g for g in grid if g > 0]
            if rng.random() < 0.5:        # include retained sample points
                grid = sorted(set(grid + [x * f for x in rng.sample(w, min(len(w), 2))]))
            if len(grid) < 2:
                grid = [lo, hi]
            why = None
            if refuse and len(grid) >= 2:
                why = rng.choice(['unsorted', 'duplicate', 'non-positive', 'bad-method', 'bad-unit', 'scalar-grid'])
                if why == 'unsorted':
                    grid = grid[::-1]
                elif why == 'duplicate':
                    grid = grid + [grid[-1]]
                elif why == 'non-positive':
                    grid = [-grid[0]] + grid
                elif why == 'scalar-grid':
                    # "array_like or float": a single wavelength as a bare number.  Refused today; whatever happens, the object stays
                    # a grid with one value per wavelength
                    grid = float(grid[len(grid) // 2])
            k = {'waveunit': unit}
            if why == 'bad-unit':
                k['waveunit'] = 'furlong'
            meth = rng.choice(['linear', 'linear', 'cubic']) if len(w) >= 4 else 'linear'
            if why == 'bad-method':
                meth = 'septic'
            if meth != 'linear':
                k['method'] = meth
            if rng.random() < 0.3:
                k['fill_value'] = rng.choice([0.5, [0.1, 0.9]])
            e = E('Spectrum.resample', [ref, grid], k,
                  t={'expect': 'refuse' if why else 'ok', 'must_refuse': why in ('unsorted', 'duplicate', 'non-positive'), 'why': why},
                  inplace=[ref])
            if not why and len(grid) >= 1:
                mm = m.to(unit)
                m.wave, m.value, m.unit = list(grid), list(mm.interp(grid, k.get('fill_value', 0))), unit
                m.lin = None
                m.uniform = False
            return e
        # to
        if refuse:
            unit = rng.choice(['furlong', 'photlam' if m.vunit is None else 'parsec'])
            return E('Spectrum.to', [ref, unit], t={'expect': 'refuse', 'why': 'unit'}, inplace=[ref])
        unit = rng.choice(['nm', 'um', 'angstrom', 'm'])
        e = E('Spectrum.to', [ref, unit], inplace=[ref])
        new = m.to(unit)
        if m.lin:
            f = factor(m.unit, unit)
            dens = m.vunit in DENSITY
            m.lin = [m.lin[0] / (f if dens else 1), m.lin[1] / f / (f if dens else 1)]
        m.wave, m.value, m.unit = new.wave, new.value, unit
        return e

    def query(self, rng, c, sid, m, events, counter):
        ref = '@' + sid
        w = m.wave
        if len(w) < 3:
            return
        kind = rng.choices(['integrate', 'bin', 'sample', 'check'], [2, 4, 1, 2])[0]

        def E(fn, a, k=None, t=None):
            counter[0] += 1
            e = {'c': c, 'fn': fn, 'a': a, 'id': 'c%d_q%d' % (c, counter[0])}
            if k:
                e['k'] = k
            if t:
                e['t'] = t
            events.append(e)

        nonneg = all(v >= 0 for v in m.value)
        if kind == 'integrate':
            k = {'method': rng.choice(['trapz', 'trapz', 'simps'])}
            if rng.random() < 0.6:
                i = rng.randint(0, len(w) - 2)
                j = rng.randint(i + 1, len(w) - 1)
                k['start'], k['end'] = w[i], w[j]
            E('Spectrum.integrate', [ref], k)
        elif kind == 'sample':
            pts = sorted(rng.uniform(w[0] - 1, w[-1] + 1) for _ in range(rng.randint(1, 5)))
            u = m.unit if rng.random() < 0.65 else rng.choice([x for x in ('nm', 'um', 'angstrom', 'm') if x != m.unit])
            fu = factor(m.unit, u)
            E('Spectrum.sample', [ref, [p_ * fu for p_ in pts]], {'waveunit': u}, {'foreign_unit': u != m.unit})
        elif kind == 'check':
            E('check.integrate', [ref], {'seed': rng.randrange(10 ** 6), 'method': rng.choice(['trapz', 'simps'])})
        else:
            method = rng.choice(['trapz', 'simps'])
            ends = rng.choice(['symmetric', 'inside'])
            pp = rng.random() < 0.5
            on_samples = rng.random() < 0.6
            if on_samples and len(w) >= 4:
                i = rng.randint(0, len(w) - 3)
                j = rng.randint(i + 2, len(w) - 1)
                nb = rng.randint(2, 5)
                if method == 'simps' or rng.random() < 0.5:
                    centres = list(np.linspace(w[i], w[j], nb))
                    centres[0], centres[-1] = w[i], w[j]
                else:
                    inner = sorted(rng.uniform(w[i], w[j]) for _ in range(nb - 2))
                    centres = [w[i]] + inner + [w[j]]
                    if any(b - a < 1e-6 * (w[j] - w[i]) for a, b in zip(centres, centres[1:])):
                        centres = list(np.linspace(w[i], w[j], nb))
            else:
                on_samples = False
                span = w[-1] - w[0]
                nb = rng.randint(2, 5)
                lo = w[0] + span * rng.uniform(0.15, 0.3)
                hi = w[-1] - span * rng.uniform(0.15, 0.3)
                centres = list(np.linspace(lo, hi, nb))
            centres = [float(x) for x in centres]
            u = m.unit if rng.random() < 0.65 else rng.choice([x for x in ('nm', 'um', 'angstrom', 'm') if x != m.unit])
            fu = factor(m.unit, u)
            centres = [x * fu for x in centres]
            k = {'interp_method': method, 'ends': ends, 'preserve_power': pp, 'waveunit': u}
            if rng.random() < 0.2 and len(w) >= 4:
                k['sample_method'] = 'cubic'
            t = {'nonneg': nonneg, 'on_samples': on_samples and u == m.unit, 'foreign_unit': u != m.unit}
            if getattr(m, 'lin', None) and u == m.unit:
                t['linear'] = m.lin
            E('Spectrum.bin', [ref, centres], k, t)

    def generate(self, rng, force=None):
        world = {'shapes': {}, 'cache': 32, 'rng_seed': rng.randrange(2 ** 31)}
        K = rng.choice([1, 1, 2])
        world['K'] = K
        events = []
        models = {}
        counter = [0]
        nspec = rng.randint(1, 3)
        sids = []
        for j in range(nspec):
            sid = 'S%d' % j
            self.new_spectrum(rng, -1, sid, events, models)
            sids.append(sid)
        nsteps = rng.randint(4, 25 * self.depth)
        asked = {sid: [] for sid in sids}      # queries already issued per spectrum
        for _ in range(nsteps):
            sid = rng.choice(sids)
            m = models[sid]
            if len(m.wave) < 3:
                continue
            if rng.random() < 0.06 and asked[sid]:
                # the owner assigns new values on the same grid through the documented attribute, then an earlier question is asked again
                sv_ = rng.randrange(10 ** 6)
                events.append({'c': 0, 'fn': 'h.assign_values', 'a': ['@' + sid, sv_], 'id': 'c0_sv%d' % len(events), 'inplace': ['@' + sid]})
                m.value = [round(rng.uniform(0.0, 1.0), 3) for _ in m.wave]      # (the generator's own copy only aims later edits)
                m.lin = None
                q = copy.deepcopy(rng.choice(asked[sid]))
                counter[0] += 1
                q['id'] = 'c%d_rq%d' % (q['c'], counter[0])
                q.setdefault('t', {})['reasked'] = True
                q['t']['after_value_assignment'] = True
                q['t'].pop('linear', None)
                q['t']['nonneg'] = True
                events.append(q)
            if rng.random() < 0.05 and len(m.wave) >= 5:
                # limits a few ulp away from two current samples: the closed range is exact
                i0 = rng.randint(0, len(m.wave) - 4)
                j0 = rng.randint(i0 + 2, len(m.wave) - 1)
                klo, khi = rng.choice([(0, -1), (1, 0), (1, -1), (-1, 1), (0, -2), (2, 0)])
                events.append({'c': 0, 'fn': 'h.crop_ulp', 'a': ['@' + sid, i0, j0, klo, khi], 'id': 'c0_cu%d' % len(events), 'inplace': ['@' + sid]})
                a_, b_ = i0 + (1 if klo > 0 else 0), j0 - (1 if khi < 0 else 0)
                m.wave, m.value = m.wave[a_:b_ + 1], m.value[a_:b_ + 1]
                m.lin = None
                continue
            if rng.random() < 0.04:
                # "no data" sentinels: a pad with non-finite values, taken off again by the next step.  Accepted or refused, every
                # intermediate state is a grid with one value per wavelength
                events.append({'c': 0, 'fn': 'h.pad_nonfinite', 'a': ['@' + sid, rng.choice(['inf', 'nan', '-inf'])], 'id': 'c0_pn%d' % len(events),
                               'inplace': ['@' + sid]})
                events.append({'c': 0, 'fn': 'h.crop_finite', 'a': ['@' + sid], 'id': 'c0_cf%d' % len(events), 'inplace': ['@' + sid]})
            if rng.random() < 0.08:
                # the owner edits samples in place through the array the spectrum hands out (s.value[...] *= k): the next edit or query
                # sees the new content (expected results are computed from the object's live public pre-state)
                aid = 'c0_va%d' % len(events)
                events.append({'c': 0, 'fn': 'attr', 'a': ['@' + sid, 'value'], 'id': aid})
                events.append({'env': 'perturb', 'c': 0, 'target': '@' + aid, 'seed': rng.randrange(10 ** 6), 'scale': rng.choice([None, 5.0])})
                m.lin = None
            if rng.random() < 0.5:
                e = self.edit(rng, 0, sid, m, events, models, counter)
                # F6 across an edit: the reader repeats an earlier question, word for word, about the edited object
                if asked[sid] and rng.random() < 0.5:
                    q = copy.deepcopy(rng.choice(asked[sid]))
                    counter[0] += 1
                    q['id'] = 'c%d_rq%d' % (q['c'], counter[0])
                    q.setdefault('t', {})['reasked'] = True
                    q['t'].pop('linear', None)
                    events.append(q)
                # F6 duplicate: crop / trim / pad with the same arguments twice == once
                if e and e['fn'] in ('Spectrum.crop', 'Spectrum.trim', 'Spectrum.pad') and rng.random() < 0.25:
                    d = copy.deepcopy(e)
                    d['id'] = e['id'] + 'd'
                    d.setdefault('t', {})['dup'] = True
                    events.append(d)
            else:
                n0 = len(events)
                self.query(rng, K - 1, sid, m, events, counter)
                asked[sid] += [e for e in events[n0:] if e['fn'] in ('Spectrum.integrate', 'Spectrum.bin', 'Spectrum.sample')]
                last = events[-1]
                if last['fn'] == 'Spectrum.bin' and len(events) > n0 and rng.random() < 0.3:
                    # the same centres again with exactly one option changed (state left by the first call must not carry over)
                    d = copy.deepcopy(last)
                    counter[0] += 1
                    d['id'] = 'c%d_q%d' % (d['c'], counter[0])
                    opt = rng.choice(['ends', 'interp_method', 'preserve_power'])
                    d['k'][opt] = {'ends': {'symmetric': 'inside', 'inside': 'symmetric'}, 'interp_method': {'trapz': 'simps', 'simps': 'trapz'},
                                   'preserve_power': {True: False, False: True}}[opt][d['k'][opt]]
                    d.setdefault('t', {})['one_option_flipped'] = opt
                    events.append(d)
                    last = d
                if last['fn'] in ('Spectrum.bin', 'Spectrum.sample') and len(events) > n0 and rng.random() < 0.3:
                    # fault: the caller writes into the array it was handed, then asks again
                    events.append({'env': 'perturb', 'c': last['c'], 'target': '@' + last['id'], 'seed': rng.randrange(10 ** 6)})
                    d = copy.deepcopy(last)
                    d['id'] = last['id'] + 'a'
                    d.setdefault('t', {})['again'] = last['id']
                    events.append(d)
        return {'scenario': self.name, 'world': world, 'events': events}

    def prelude(self, verif_seed):
        import random
        runs = []
        rng = random.Random(verif_seed * 32452843 + 3)
        for j in range(6):
            world = {'shapes': {}, 'cache': 32, 'rng_seed': 1, 'K': 1}
            events = []
            models = {}
            counter = [0]
            m = self.new_spectrum(rng, -1, 'S0', events, models, force={'n': 11, 'uniform': j % 2 == 0, 'unit': ['nm', 'um'][j % 2],
                                                                      'linear': j < 3, 'shared': j % 3 == 0})
            w = m.wave
            ref = '@S0'
            # every bin option combination, on sample points and strictly inside
            for method in ('trapz', 'simps'):
                for ends in ('symmetric', 'inside'):
                    for pp in (True, False):
                        for cs, on in (([w[1], w[3], w[5], w[7], w[9]], True), ([w[2] + 0.1 * (w[3] - w[2]), w[4], w[6], w[8]], False)):
                            if method == 'simps' and not on:
                                cs = list(np.linspace(cs[0], cs[-1], 4))
                            counter[0] += 1
                            t = {'nonneg': True, 'on_samples': on}
                            if m.lin:
                                t['linear'] = m.lin
                            events.append({'c': 0, 'fn': 'Spectrum.bin', 'a': [ref, [float(x) for x in cs]], 'id': 'q%d' % counter[0],
                                           'k': {'interp_method': method, 'ends': ends, 'preserve_power': pp, 'waveunit': m.unit}, 't': t})
            qlast = [e for e in events if e.get('fn') == 'Spectrum.bin'][-1]
            events.append({'env': 'perturb', 'c': 0, 'target': '@' + qlast['id'], 'seed': j})
            events.append(dict(copy.deepcopy(qlast), id=qlast['id'] + 'a', t=dict(qlast.get('t', {}), again=qlast['id'])))
            events.append({'c': 0, 'fn': 'check.integrate', 'a': [ref], 'k': {'seed': j, 'method': 'trapz'}, 'id': 'ci'})
            # a refused resample and a refused append in the middle of an edit sequence, then keep editing
            events.append({'c': 0, 'fn': 'Spectrum.crop', 'a': [ref, w[1], w[9]], 'id': 'e1', 't': {'cut': 'at-sample'}, 'inplace': [ref]})
            events.append({'c': 0, 'fn': 'Spectrum.crop', 'a': [ref, w[1], w[9]], 'id': 'e1d', 't': {'cut': 'at-sample', 'dup': True}, 'inplace': [ref]})
            events.append({'c': 0, 'fn': 'Spectrum.integrate', 'a': [ref], 'k': {'method': 'trapz', 'start': w[2], 'end': w[8]}, 'id': 'q_pre'})
            events.append({'c': 0, 'fn': 'Spectrum.crop', 'a': [ref, w[3], w[9]], 'id': 'e1b', 't': {'cut': 'at-sample'}, 'inplace': [ref]})
            events.append({'c': 0, 'fn': 'Spectrum.integrate', 'a': [ref], 'k': {'method': 'trapz', 'start': w[2], 'end': w[8]}, 'id': 'q_post', 't': {'reasked': True}})
            events.append({'c': 0, 'fn': 'Spectrum.resample', 'a': [ref, [w[5], w[3]]], 'k': {'waveunit': m.unit}, 'id': 'e2',
                           't': {'expect': 'refuse', 'must_refuse': True, 'why': 'unsorted'}, 'inplace': [ref]})
            events.append({'c': 0, 'fn': 'Spectrum.integrate', 'a': [ref], 'k': {'method': 'trapz'}, 'id': 'q_after_refusal'})
            events.append({'c': 0, 'fn': 'Spectrum', 'id': 'O1', 'a': [[w[9], w[10]], [0.1, 0.2]], 'k': {'waveunit': m.unit, 'valueunit': m.vunit}})
            events.append({'c': 0, 'fn': 'Spectrum.append', 'a': [ref, '@O1'], 'id': 'e3',
                           't': {'expect': 'refuse', 'must_refuse': True, 'why': 'touching'}, 'inplace': [ref]})
            events.append({'c': 0, 'fn': 'Spectrum.crop', 'a': [ref, (w[2] + w[3]) / 2, (w[7] + w[8]) / 2], 'id': 'e4', 't': {'cut': 'between'},
                           'inplace': [ref]})
            d = w[1] - w[0]
            events.append({'c': 0, 'fn': 'Spectrum.pad', 'a': [ref, [w[3] + 0.4 * d, w[7] - 0.4 * d]], 'id': 'e5', 't': {'where': 'inside'}, 'inplace': [ref]})
            events.append({'c': 0, 'fn': 'Spectrum.pad', 'a': [ref, [w[3] - 2.5 * d, w[7] + 1.0 * d]], 'id': 'e6', 't': {'where': 'outside'}, 'inplace': [ref]})
            events.append({'c': 0, 'fn': 'Spectrum.trim', 'a': [ref, 1e-9], 'id': 'e7', 'inplace': [ref]})
            events.append({'c': 0, 'fn': 'check.integrate', 'a': [ref], 'k': {'seed': j + 10, 'method': 'simps'}, 'id': 'ci2'})
            runs.append({'scenario': self.name, 'world': world, 'events': events, 'run_index': -100 + j, 'seed': 0})
        return runs

    # ---------------------------------------------------------------- execution
    def execute(self, L, run):
        hooks = EditHooks()
        it = Interp(L, run['world'], self.make_fns(), hooks)
        # wrap step to implement the idempotence oracle and the composite integrate verdicts
        orig_step = it.step
        last_state = {}

        def step(i, ev):
            fn = ev['fn']
            tgt_id = ev['a'][0][1:] if ev.get('a') and isinstance(ev['a'][0], str) and ev['a'][0].startswith('@') else None
            pre = MS.of(it.store[tgt_id]) if (ev.get('t', {}).get('dup') and tgt_id in it.store and wellformed_obj(it.store[tgt_id])[0]) else None
            out = orig_step(i, ev)
            if pre is not None and out.ok and wellformed_obj(it.store[tgt_id])[0]:
                it.probe('idem')
                it.probe('check:idem')
                it.fault('dup')
                post = MS.of(it.store[tgt_id])
                if not post.same(pre, rtol=0):
                    it.violate('C15.idem', {'call': fn}, 'applying %s twice with the same arguments is not the same as once: %s -> %s'
                               % (fn, pre.wave, post.wave), i)
            if fn == 'check.integrate' and out.ok and out.value.get('premise'):
                for name in ('linear', 'additive', 'exact', 'defaults'):
                    it.probe('check:integrate_' + name)
                    if not out.value[name]:
                        it.violate('C15.integrate', {'what': name}, out.value[name + '_detail'], i)
            if fn == 'Spectrum' and out.ok and ev['id'].endswith('_twin'):
                it.probe('shared_buffers')
                it.fault('alias')
            if fn == 'Spectrum' and out.ok and np.asarray(out.value.wave).dtype.kind in 'iu':
                it.probe('integer_wavelength_grid')
            if fn == 'Spectrum' and out.ok:
                w = np.asarray(out.value.wave, dtype=float)
                if w.size > 2 and not np.allclose(np.diff(w), np.diff(w)[0], rtol=1e-9, atol=0):
                    it.probe('nonuniform_grid')
            return out

        it.step = step
        it.run(run['events'])
        states = set()
        for (i, c, fn, brief) in it.history:
            states.add('%s>%s' % (fn, brief.split(':')[0] if brief.startswith('ok') else brief))
        for p in it.probes:
            if p.startswith(('crop:', 'pad:', 'bin:', 'refused:')):
                states.add(p)
        if len({e.get('c') for e in run['events'] if e.get('c', -1) >= 0}) > 1:
            it.fault('interleave')
        return self.result(it, (), states)
