"""C08 -- plane-type state machine (DESIGN.md 7.1).

K callers share a pool of planes (every ptype, every documented class) and three seed
wavefronts; each runs a program of multiplies and propagations, a seeded fraction of which
must be refused (fault F5, biased to land right after a type transition).  Oracles: the table
parsed from the documentation, operand snapshots around refusals, solo-vs-interleaved.
"""
import copy

import numpy as np

from ..core import Interp, Hooks, Violation
from ..models.doctable import DocTable, PTYPES, WTYPES
from .base import Scenario, solo_events, callers_of
from ..runner import lentil_root

MUL = {'Plane.multiply': (0, 1), 'w*p': (1, 0), 'p*w': (0, 1), 'w*=p': (1, 0)}   # fn -> (plane arg index, wavefront arg index)
PROP = ('propagate_dft', 'propagate_fft')


class PtypeHooks(Hooks):
    prefix = 'C08'
    def __init__(self, doc):
        self.doc = doc
        self.pre = None
        self.last_transition = {}
        self.given_ptype = {}       # plane id -> the plane type its creator asked for (name), when it asked for one

    def before(self, it, i, ev):
        fn = ev['fn']
        self.pre = None
        self.pre_assign = None
        if fn == 'setattr' and ev.get('t', {}).get('refused_assignment'):
            w_ = it.resolve(ev['a'][0])
            self.pre_assign = (w_, it.dig(w_))
        if fn in MUL:
            pi, wi = MUL[fn]
            p = it.resolve(ev['a'][pi])
            w = it.resolve(ev['a'][wi])
            self.pre = ('mul', p, w, it.dig(p), it.dig(w), str(w.ptype))
        elif fn in PROP:
            w = it.resolve(ev['a'][0])
            self.pre = ('prop', None, w, None, it.dig(w), str(w.ptype))

    def after(self, it, i, ev, out):
        if getattr(self, 'pre_assign', None) is not None:
            w_, d_ = self.pre_assign
            it.probe('check:refusal_atomic')
            it.probe('refused_type_assignment')
            it.fault('refuse')
            if out.ok:
                it.violate('C08.table', {'what': 'illegal-type-assigned', 'got': str(w_.ptype)}, 'a wavefront accepted the type %s' % w_.ptype, i)
            elif it.dig(w_) != d_:
                it.violate('C08.refusal_atomic', {'fn': 'setattr', 'operand': 'wavefront', 'exc': type(out.exc).__name__},
                           'a refused type assignment changed the wavefront (now %s)' % w_.ptype, i)
        if out.ok and ev.get('id') and 'ptype' in ev.get('k', {}) and ev['fn'] != 'Wavefront':
            g = ev['k']['ptype']
            self.given_ptype[ev['id']] = g['$ptype'] if isinstance(g, dict) else (None if g is None else str(g))
        if ev['fn'] == 'Wavefront.empty':
            it.probe('empty_wavefront_constructor')
        if ev['fn'] in ('Wavefront', 'Wavefront.empty') and out.ok:
            # the start of every program: a new wavefront has the type it was given, none when it was given none
            given = ev.get('k', {}).get('ptype')
            want = 'none' if given is None else (given['$ptype'] if isinstance(given, dict) else str(given))
            it.probe('check:constructor')
            if sorted(ev.get('k', {})) not in ([], ['ptype']):
                it.probe('wavefront_constructor_arguments')
            if str(out.value.ptype) != want:
                it.violate('C08.table', {'what': 'constructor-type', 'expected': want, 'got': str(out.value.ptype),
                                         'kw': ','.join(sorted(ev.get('k', {})))},
                           'Wavefront(%s) has type %s, expected %s' % (', '.join(sorted(ev.get('k', {}))), out.value.ptype, want), i)
        if ev['fn'] == 'churn.planes':
            it.probe('short_lived_planes')
            it.probe('check:table')
            w_ = it.resolve(ev['a'][0])
            wt_ = str(w_.ptype)
            want = [self.doc.result(wt_, n_) or 'TypeError' for n_ in ev['a'][1]]
            got_ = list(out.value) if out.ok else [type(out.exc).__name__]
            if got_ != want:
                it.violate('C08.table', {'what': 'short-lived-planes', 'w': wt_},
                           'planes built by name, applied to a %s wavefront and dropped, in turn %s: got %s, table says %s'
                           % (wt_, ev['a'][1], got_, want), i)
        if ev['fn'] == 'foreign.products':
            it.probe('planes_saved_by_another_interpreter')
            it.probe('check:table')
            it.fault('restart')
            if not out.ok:
                it.violate('C08.table', {'what': 'saved-objects', 'got': type(out.exc).__name__},
                           'planes and wavefronts saved by another interpreter could not be loaded and used: %r' % (out.exc,), i)
            else:
                for cls_, pt_, wt_, got_ in out.value:
                    want = self.doc.result(wt_, pt_) or 'TypeError'
                    if got_ != want:
                        it.violate('C08.table', {'what': 'saved-objects', 'w': wt_, 'p': pt_, 'expected': want, 'got': got_},
                                   'across a save / load by another interpreter: %s (%s) on a %s wavefront gave %s, table says %s'
                                   % (cls_, pt_, wt_, got_, want), i)
                        break
        if ev['fn'] == 'deepcopy' and out.ok and hasattr(out.value, 'ptype'):
            src = it.resolve(ev['a'][0])
            if str(out.value.ptype) != str(src.ptype):
                it.violate('C08.table', {'what': 'copy-type', 'expected': str(src.ptype), 'got': str(out.value.ptype)},
                           'a copy of a %s wavefront has type %s' % (src.ptype, out.value.ptype), i)
        if self.pre is None:
            return
        kind, p, w, dp, dw, wt = self.pre
        fn = ev['fn']
        tag = ev.get('t', {})
        if wt not in WTYPES or (kind == 'mul' and str(p.ptype) not in PTYPES):
            it.violate('C08.table', {'what': 'unknown-type', 'w': wt, 'p': str(p.ptype) if p is not None else '-'},
                       'operand carries a type outside the documented ones: wavefront %s, plane %s' % (wt, p.ptype if p is not None else '-'), i)
            return
        got = str(out.value.ptype) if out.ok and hasattr(out.value, 'ptype') else (
            'ok-without-ptype' if out.ok else type(out.exc).__name__)
        px_conflict = (kind == 'mul' and p.pixelscale is not None and w.pixelscale is not None and
                       tuple(float(x) for x in p.pixelscale) != tuple(float(x) for x in w.pixelscale))
        if kind == 'mul' and px_conflict and not out.ok and isinstance(out.exc, ValueError) and self.doc.result(wt, str(p.ptype)) is not None:
            # premise from the live operands: the product is type-legal but the samplings disagree -- refusing it (ValueError) is the
            # documented behaviour; the table has nothing to say about this step (its refusal atomicity is still judged below)
            it.probe('type_legal_but_sampling_conflict')
        elif kind == 'mul':
            cls = type(p).__name__
            doc_pt = self.doc.classes.get(cls) if cls != 'Plane' else None
            pid = ev['a'][MUL[fn][0]][1:]
            act_pt = str(p.ptype)
            if 'ptype' in it.meta.get(pid, {}).get('kw', []):
                doc_pt = None       # the caller chose the plane type explicitly: the table row of that type applies
                it.probe('explicit_ptype_kw')
                given = self.given_ptype.get(pid)
                if given is not None and given in PTYPES:
                    if act_pt != given:
                        it.violate('C08.table', {'what': 'plane-type-not-the-one-given', 'class': cls, 'expected': given, 'got': act_pt},
                                   '%s(ptype=%s) reports type %s' % (cls, given, act_pt), i)
                    act_pt = given
            if doc_pt is not None:
                it.probe('check:class_applies')
                if act_pt != doc_pt:
                    it.violate('C08.class_applies', {'class': cls, 'what': 'ptype', 'expected': doc_pt, 'got': act_pt},
                               '%s().ptype is %s, documentation says %s' % (cls, act_pt, doc_pt), i)
                exp = self.doc.result(wt, doc_pt)
                expected = exp if exp is not None else 'TypeError'
                if exp is not None:
                    it.probe('class:%sx%s' % (cls, wt))
                it.probe('cell:%sx%s' % (wt, doc_pt))
                if got != expected:
                    it.violate('C08.class_applies', {'class': cls, 'what': 'apply', 'w': wt, 'expected': expected, 'got': got},
                               '%s on a %s wavefront: expected %s, got %s (%r)' % (cls, wt, expected, got, out.exc), i)
            else:
                it.probe('check:table')
                if act_pt not in PTYPES:
                    return
                exp = self.doc.result(wt, act_pt)
                expected = exp if exp is not None else 'TypeError'
                it.probe('cell:%sx%s' % (wt, act_pt))
                if got != expected:
                    it.violate('C08.table', {'w': wt, 'p': act_pt, 'expected': expected, 'got': got},
                               'wavefront %s x plane %s (%s): expected %s, got %s (%r)' % (wt, act_pt, cls, expected, got, out.exc), i)
        else:
            it.probe('check:propagate')
            it.probe('prop:%s' % wt)
            if tag.get('output_mask'):
                it.probe('prop_with_output_mask:%s' % wt)
            if wt in ('pupil', 'image'):
                expected = 'image' if wt == 'pupil' else 'pupil'
                if tag.get('propagatable') and got != expected:
                    it.violate('C08.propagate', {'from': wt, 'fn': fn, 'expected': expected, 'got': got},
                               '%s from %s: expected %s, got %s (%r)' % (fn, wt, expected, got, out.exc), i)
                if not tag.get('propagatable') and out.ok and got != expected:
                    it.violate('C08.propagate', {'from': wt, 'fn': fn, 'expected': expected, 'got': got},
                               '%s from %s returned type %s' % (fn, wt, got), i)
            else:
                # the statement names TypeError only for products; for propagation it says "permitted only
                # from a pupil or an image", so any refusal is accepted (soundness rule 5)
                if out.ok:
                    it.violate('C08.propagate', {'from': wt, 'fn': fn, 'expected': 'refusal', 'got': got},
                               '%s from a none-typed wavefront was not refused (returned type %s)' % (fn, got), i)
        # refusals leave both operands unchanged
        if not out.ok:
            it.fault('refuse')
            it.probe('check:refusal_atomic')
            if tag.get('after_transition'):
                it.probe('refuse_after_transition')
            if tag.get('reassigned_plane'):
                it.probe('refuse_after_attribute_update')
            if kind == 'mul' and not w.data:
                it.probe('refused_on_a_dark_wavefront')
            if kind == 'mul' and tag.get('segmented_operand'):
                it.probe('refused_on_a_segmented_wavefront')
            if it.dig(w) != dw:
                it.violate('C08.refusal_atomic', {'fn': fn, 'operand': 'wavefront', 'exc': type(out.exc).__name__},
                           'wavefront changed by a refused %s' % fn, i)
            if p is not None and it.dig(p) != dp:
                it.violate('C08.refusal_atomic', {'fn': fn, 'operand': 'plane', 'exc': type(out.exc).__name__},
                           'plane changed by a refused %s' % fn, i)
        else:
            # a successful step must not change its operands either (C10 territory, but the
            # type of the *input* wavefront silently flipping is a state-machine defect)
            if str(w.ptype) != wt:
                it.violate('C08.refusal_atomic', {'fn': fn, 'operand': 'wavefront-ptype', 'exc': 'none'},
                           'input wavefront type changed from %s to %s by %s' % (wt, w.ptype, fn), i)
        if kind == 'mul' and tag.get('after_propagation_same_sampling'):
            it.probe('sampled_plane_right_after_propagation')


class PtypeScenario(Scenario):
    name = 'ptype'
    prop = 'C08'
    quick_runs = 1500
    thorough_runs = 150000
    audit_every = 8
    rule = ('each run = K in 1..3 callers x programs of <= 12 (thorough: 24) multiply/propagate steps over a shared pool of about 40 planes '
            '(5 generic ptypes, every public plane class, explicit-ptype, unsampled, segmented, dark-pair and re-assigned planes) and 9 seed '
            'wavefronts (every constructor argument, Wavefront.empty), with refused type assignments, series of short-lived planes and, in '
            'the directed prelude, objects saved by a second interpreter; interleaved by the seeded scheduler; '
            'distinct = distinct history digest (sequence of calls and outcome digests); non-trivial = at least one '
            'refusal (fault F5) fired and at least one table/class/propagate oracle compared an outcome')
    state_measure = 'distinct (wavefront ptype, plane ptype-or-class, outcome) triples and (from-type, propagator, outcome) triples'
    assumptions = ['documentation tables parse (else HARNESS-ERROR)',
                   'a legal step is one that is type-legal by the documented table AND pixel-scale compatible; '
                   'type-illegal steps are generated only with pixel-scale-compatible planes so TypeError is the only admissible refusal',
                   'program length bound 12 per caller (24 in the thorough tier)']

    def __init__(self):
        self._doc = None
        cells = ['cell:%sx%s' % (w, p) for w in WTYPES for p in PTYPES]
        props = ['prop:%s' % w for w in WTYPES]
        self.must_hit = cells + props + ['refuse_after_transition', 'class:Pupilxnone', 'class:Pupilxpupil',
                                         'class:Imagexnone', 'class:Imageximage', 'class:Tiltxpupil', 'class:Tiltximage',
                                         'class:DispersiveTiltxpupil', 'class:Rotatexpupil', 'class:Flipxpupil', 'explicit_ptype_kw',
                                         'wavefront_constructor_arguments', 'refuse_after_attribute_update', 'refused_on_a_dark_wavefront', 'sampled_plane_right_after_propagation', 'refused_type_assignment', 'short_lived_planes', 'planes_saved_by_another_interpreter', 'empty_wavefront_constructor', 'refused_on_a_segmented_wavefront']
        self.probe_names = self.must_hit + ['coldwarm_audit']

    @property
    def doc(self):
        if self._doc is None:
            self._doc = DocTable(lentil_root())
        return self._doc

    # ---------------------------------------------------------------- world
    def base_world(self, rng):
        wl = rng.choice([500e-9, 650e-9, 1e-6])
        du = rng.choice([5e-6, 4e-6])
        f = rng.choice([0.5, 1.0, 2.0])
        n0 = rng.choice([12, 16, 20, 24])
        dx = wl * f / (du * n0)
        shapes = {'S0': [rng.randint(3, 10), rng.randint(3, 10)], 'S1': [rng.randint(2, 9), rng.randint(2, 9)]}
        return {'shapes': shapes, 'cache': rng.choice([32, 32, 0, 1, 2]), 'rng_seed': rng.randrange(2 ** 31),
                'empty_pt': [rng.choice(['pupil', 'image', 'none']), rng.choice(['name', 'name', 'object', 'omitted'])],
                'geoms': [[rng.choice([1, 2]), rng.randint(2, 8), rng.choice([0, 1])] for _ in range(2)],
                'phys': {'wl': wl, 'du': du, 'f': f, 'dx': dx, 'n0': n0}}

    def setup_events(self, world, rng):
        ph = world['phys']
        ev = []

        def add(fn, id, a=None, k=None, **extra):
            e = {'c': -1, 'fn': fn, 'id': id}
            if a is not None:
                e['a'] = a
            if k is not None:
                e['k'] = k
            e.update(extra)
            ev.append(e)

        add('array', 'a0', recipe={'kind': 'uniform', 'shape': 'S0', 'lo': 0.5, 'hi': 1.0, 'seed': rng.randrange(10 ** 6)})
        add('array', 'o0', recipe={'kind': 'normal', 'shape': 'S0', 'sigma': 2e-8, 'seed': rng.randrange(10 ** 6)})
        add('array', 'a1', recipe={'kind': 'uniform', 'shape': 'S1', 'lo': 0.5, 'hi': 1.0, 'seed': rng.randrange(10 ** 6)})
        add('array', 'a0z', recipe={'kind': 'mul', 'x': {'kind': 'uniform', 'shape': 'S0', 'lo': 0.5, 'hi': 1.0, 'seed': rng.randrange(10 ** 6)},
                                    'y': {'kind': 'rect', 'shape': 'S0', 'half': [0, 1], 'dr': -1, 'dc': 0, 'degenerate_ok': True}})
        for pt in PTYPES:
            add('Plane', 'g_' + pt, k={'ptype': pt})
        add('Pupil', 'PUP', k={'amplitude': '@a0', 'opd': '@o0', 'pixelscale': ph['dx'], 'focal_length': ph['f']})
        add('Pupil', 'PUPS', k={'focal_length': ph['f']})
        add('Pupil', 'PUP2', k={'amplitude': '@a0', 'pixelscale': ph['dx'], 'focal_length': ph['f'] * 1.5})
        add('Pupil', 'PUPS2', k={'focal_length': ph['f'] * 0.75})
        # the documented alias spelling of the amplitude on every class
        add('array', 'mL', recipe={'kind': 'rect', 'shape': 'S0', 'half': [9, 0], 'dr': 0, 'dc': -1, 'degenerate_ok': True})
        add('array', 'mR', recipe={'kind': 'rect', 'shape': 'S0', 'half': [9, 0], 'dr': 0, 'dc': 1, 'degenerate_ok': True})
        add('Pupil', 'PUPL', k={'amplitude': '@a0', 'mask': '@mL', 'pixelscale': ph['dx'], 'focal_length': ph['f']})
        add('Pupil', 'PUPR', k={'amplitude': '@a0', 'mask': '@mR', 'pixelscale': ph['dx'], 'focal_length': ph['f']})
        add('Pupil', 'PUPAMP', k={'amp': '@a0', 'pixelscale': ph['dx'], 'focal_length': ph['f']})
        # image-side planes that carry the sampling a propagated wavefront will have (du / oversample)
        add('Image', 'IMGPX1', k={'amplitude': '@a1', 'pixelscale': ph['du']})
        add('Image', 'IMGPX2', k={'pixelscale': [ph['du'] / 2, ph['du'] / 2]})
        add('Image', 'IMGAMP', k={'amp': '@a1'})
        add('Tilt', 'TLTAMP', k={'x': 1e-6 / ph['f'], 'y': 0.0, 'amp': 0.9})
        # two segments split along the diagonal: disjoint pixel-wise, bounding boxes overlapping
        r0_, c0_ = world['shapes']['S0']
        seg0_ = [[1.0 if (rr * c0_ >= cc * r0_) else 0.0 for cc in range(c0_)] for rr in range(r0_)]
        add('array', 'ms0', recipe={'kind': 'list', 'values': [seg0_, [[1.0 - v for v in row] for row in seg0_]]})
        add('Pupil', 'PUPSEG', k={'amplitude': '@a0', 'mask': '@ms0', 'pixelscale': ph['dx'], 'focal_length': ph['f']})
        add('Image', 'IMG', k={})
        add('Image', 'IMGA', k={'amplitude': '@a1'})
        add('Plane', 'PLN', k={'amplitude': '@a0', 'pixelscale': ph['dx']})
        add('Plane', 'GPA', k={'amplitude': '@a0', 'pixelscale': ph['dx'], 'ptype': 'pupil'})
        add('Tilt', 'TLT', k={'x': 2e-6 / ph['f'], 'y': -3e-6 / ph['f']})
        add('Tilt', 'TLTP', k={'x': 1e-6 / ph['f'], 'y': 1e-6 / ph['f'], 'ptype': 'pupil'})
        # the requested type given as a plane-type OBJECT, including lentil.none itself
        add('Tilt', 'TLTN', k={'x': 1e-6 / ph['f'], 'y': 0.0, 'ptype': {'$ptype': 'none'}})
        add('DispersiveTilt', 'DSPN', k={'trace': [0.5, 0.0], 'dispersion': [1e-3, ph['wl'] - 2e-8], 'ptype': {'$ptype': 'none'}})
        add('Tilt', 'TLTI', k={'x': 0.0, 'y': 1e-6 / ph['f'], 'ptype': {'$ptype': 'image'}})
        add('Plane', 'PLNT', k={'ptype': {'$ptype': 'transform'}})
        # a sampled pupil that was never given a pixel scale (nor a diameter)
        add('Pupil', 'PUPNOPX', k={'amplitude': '@a0', 'focal_length': ph['f']})
        add('DispersiveTilt', 'DSPI', k={'trace': [0.5, 0.0], 'dispersion': [1e-3, ph['wl'] - 2e-8], 'ptype': 'image'})
        add('DispersiveTilt', 'DSP', k={'trace': [0.5, 0.0], 'dispersion': [1e-3, ph['wl'] - 2e-8]})
        add('Grism', 'GRS', k={'trace': [0.25, 0.0], 'dispersion': [1e-3, ph['wl'] - 1e-8]})
        add('Rotate', 'ROT', k={'angle': 90})
        add('Flip', 'FLP', k={'axis': 0})
        add('LensletArray', 'LA', k={})
        add('Wavefront', 'w_none', a=[ph['wl']])
        add('Wavefront', 'w_pupil', a=[ph['wl']], k={'ptype': 'pupil'})
        add('Wavefront', 'w_image', a=[ph['wl']], k={'ptype': 'image'})
        # the other public constructor: a wavefront without fields, its type given by name, as an object, or not at all
        ept = world.get('empty_pt', ['pupil', 'name'])
        add('Wavefront.empty', 'w_empty', a=[ph['wl']],
            k=({} if ept[1] == 'omitted' else {'ptype': ept[0] if ept[1] == 'name' else {'$ptype': ept[0]}}))
        # every constructor argument: a wavefront's type is what it was given (none when nothing was given), whatever else it carries
        add('Wavefront', 'w_none_f', a=[ph['wl']], k={'focal_length': ph['f'] * 2})
        add('Wavefront', 'w_none_px', a=[ph['wl']], k={'pixelscale': ph['dx'], 'diameter': 1.0, 'ptype': None})
        add('Wavefront', 'w_none_t', a=[ph['wl']], k={'tilt': [1e-6, -2e-6], 'ptype': 'none'})
        add('Wavefront', 'w_pupil_f', a=[ph['wl']], k={'ptype': 'pupil', 'focal_length': ph['f'] * 0.5, 'pixelscale': ph['dx']})
        add('Wavefront', 'w_image_f', a=[ph['wl']], k={'ptype': 'image', 'focal_length': ph['f']})
        return ev

    def plane_models(self, world):
        ph = world['phys']
        S0 = tuple(world['shapes']['S0'])
        S1 = tuple(world['shapes']['S1'])
        dx = (ph['dx'], ph['dx'])
        cls = self.doc.classes
        P = {}
        for pt in PTYPES:
            P['g_' + pt] = {'pt': pt, 'px': None, 'arr': False, 'shape': (), 'fl': None, 'tilt': False}
        P['PUP'] = {'pt': cls['Pupil'], 'px': dx, 'arr': True, 'shape': S0, 'fl': ph['f'], 'tilt': False, 'pupil': True}
        P['PUPS'] = {'pt': cls['Pupil'], 'px': None, 'arr': False, 'shape': (), 'fl': ph['f'], 'tilt': False, 'pupil': True}
        P['PUP2'] = {'pt': cls['Pupil'], 'px': dx, 'arr': True, 'shape': S0, 'fl': ph['f'] * 1.5, 'tilt': False, 'pupil': True}
        P['PUPS2'] = {'pt': cls['Pupil'], 'px': None, 'arr': False, 'shape': (), 'fl': ph['f'] * 0.75, 'tilt': False, 'pupil': True}
        P['PUPAMP'] = {'pt': cls['Pupil'], 'px': dx, 'arr': True, 'shape': S0, 'fl': ph['f'], 'tilt': False, 'pupil': True}
        # a segmented pupil: a wavefront that met it carries one field per segment (their bounding boxes may overlap)
        P['PUPSEG'] = {'pt': cls['Pupil'], 'px': dx, 'arr': True, 'shape': S0, 'fl': ph['f'], 'tilt': False, 'pupil': True}
        P['IMGPX1'] = {'pt': cls['Image'], 'px': (ph['du'], ph['du']), 'arr': True, 'shape': S1, 'fl': None, 'tilt': False}
        P['IMGPX2'] = {'pt': cls['Image'], 'px': (ph['du'] / 2, ph['du'] / 2), 'arr': False, 'shape': (), 'fl': None, 'tilt': False}
        # two stops whose masks do not overlap: a wavefront that met both carries no field at all ("dark") and keeps its type
        P['PUPL'] = {'pt': cls['Pupil'], 'px': dx, 'arr': True, 'shape': S0, 'fl': ph['f'], 'tilt': False, 'pupil': True, 'half': 'L'}
        P['PUPR'] = {'pt': cls['Pupil'], 'px': dx, 'arr': True, 'shape': S0, 'fl': ph['f'], 'tilt': False, 'pupil': True, 'half': 'R'}
        P['IMGAMP'] = {'pt': cls['Image'], 'px': None, 'arr': True, 'shape': S1, 'fl': None, 'tilt': False}
        P['TLTAMP'] = {'pt': cls['Tilt'], 'px': None, 'arr': False, 'shape': (), 'fl': None, 'tilt': True}
        P['IMG'] = {'pt': cls['Image'], 'px': None, 'arr': False, 'shape': (), 'fl': None, 'tilt': False}
        P['IMGA'] = {'pt': cls['Image'], 'px': None, 'arr': True, 'shape': S1, 'fl': None, 'tilt': False}
        P['PLN'] = {'pt': 'none', 'px': dx, 'arr': True, 'shape': S0, 'fl': None, 'tilt': False}
        P['GPA'] = {'pt': 'pupil', 'px': dx, 'arr': True, 'shape': S0, 'fl': None, 'tilt': False}
        P['TLT'] = {'pt': cls['Tilt'], 'px': None, 'arr': False, 'shape': (), 'fl': None, 'tilt': True}
        P['TLTP'] = {'pt': 'pupil', 'px': None, 'arr': False, 'shape': (), 'fl': None, 'tilt': True}
        P['TLTN'] = {'pt': 'none', 'px': None, 'arr': False, 'shape': (), 'fl': None, 'tilt': True}
        P['DSPN'] = {'pt': 'none', 'px': None, 'arr': False, 'shape': (), 'fl': None, 'tilt': True}
        P['TLTI'] = {'pt': 'image', 'px': None, 'arr': False, 'shape': (), 'fl': None, 'tilt': True}
        P['PLNT'] = {'pt': 'transform', 'px': None, 'arr': False, 'shape': (), 'fl': None, 'tilt': False}
        P['PUPNOPX'] = {'pt': cls['Pupil'], 'px': None, 'arr': True, 'shape': S0, 'fl': ph['f'], 'tilt': False, 'pupil': True}
        P['DSPI'] = {'pt': 'image', 'px': None, 'arr': False, 'shape': (), 'fl': None, 'tilt': True}
        P['DSP'] = {'pt': cls['DispersiveTilt'], 'px': None, 'arr': False, 'shape': (), 'fl': None, 'tilt': True}
        P['GRS'] = {'pt': 'tilt', 'px': None, 'arr': False, 'shape': (), 'fl': None, 'tilt': True}
        P['ROT'] = {'pt': cls['Rotate'], 'px': None, 'arr': False, 'shape': (), 'fl': None, 'tilt': False, 'rare': True}
        P['FLP'] = {'pt': cls['Flip'], 'px': None, 'arr': False, 'shape': (), 'fl': None, 'tilt': False, 'rare': True}
        P['LA'] = {'pt': 'none', 'px': None, 'arr': False, 'shape': (), 'fl': None, 'tilt': False}
        return P

    def wf_models(self, world=None):
        inf = float('inf')
        base = [{'id': 'w_none', 't': 'none', 'px': None, 'fl': inf, 'arr': False, 'tilt': False, 'shape': ()},
                {'id': 'w_pupil', 't': 'pupil', 'px': None, 'fl': inf, 'arr': False, 'tilt': False, 'shape': ()},
                {'id': 'w_image', 't': 'image', 'px': None, 'fl': inf, 'arr': False, 'tilt': False, 'shape': ()}]
        if world is None:
            return base
        ph = world['phys']
        dx = (ph['dx'], ph['dx'])
        ept = world.get('empty_pt', ['pupil', 'name'])
        return base + [{'id': 'w_empty', 't': 'none' if ept[1] == 'omitted' else ept[0], 'px': None, 'fl': inf, 'arr': False, 'tilt': False, 'shape': (),
                        'dark': True},
                       {'id': 'w_none_f', 't': 'none', 'px': None, 'fl': ph['f'] * 2, 'arr': False, 'tilt': False, 'shape': ()},
                       {'id': 'w_none_px', 't': 'none', 'px': dx, 'fl': inf, 'arr': False, 'tilt': False, 'shape': ()},
                       {'id': 'w_none_t', 't': 'none', 'px': None, 'fl': inf, 'arr': False, 'tilt': True, 'shape': ()},
                       {'id': 'w_pupil_f', 't': 'pupil', 'px': dx, 'fl': ph['f'] * 0.5, 'arr': False, 'tilt': False, 'shape': ()},
                       {'id': 'w_image_f', 't': 'image', 'px': None, 'fl': ph['f'], 'arr': False, 'tilt': False, 'shape': ()}]

    # ---------------------------------------------------------------- model steps
    def mul_model(self, w, pid, p, new_id):
        px = p['px'] if p['px'] is not None else w['px']
        halves = set(w.get('halves', ())) | ({p['half']} if p.get('half') else set())
        return {'id': new_id, 't': self.doc.result(w['t'], p['pt']), 'px': px, 'halves': sorted(halves), 'dark': len(halves) == 2,
                'fl': p['fl'] if p.get('pupil') else w['fl'],
                'arr': w['arr'] or p['arr'], 'tilt': w['tilt'] or p['tilt'],
                'shape': p['shape'] if p['arr'] else w['shape']}

    @staticmethod
    def px_ok(w, p):
        return w['px'] is None or p['px'] is None or tuple(w['px']) == tuple(p['px'])

    def mul_event(self, rng, c, w, pid, new_id, tag=None):
        form = rng.choice(['Plane.multiply', 'w*p', 'p*w', 'w*=p'])
        a = ['@' + pid, '@' + w['id']] if MUL[form] == (0, 1) else ['@' + w['id'], '@' + pid]
        e = {'c': c, 'fn': form, 'a': a, 'id': new_id}
        if tag:
            e['t'] = tag
        return e

    def prop_event(self, rng, world, c, w, new_id, method=None, tag=None):
        """-> (event, model of the result or None)"""
        ph = world['phys']
        inf = float('inf')
        can = w['arr'] and w['px'] is not None and w['fl'] != inf and w['t'] in ('pupil', 'image') and not w.get('dark')
        method = method or rng.choice(['propagate_dft', 'propagate_dft', 'propagate_fft'])
        if method == 'propagate_fft' and w['fl'] not in (inf, ph['f']) and w['arr']:
            method = 'propagate_dft'        # the abstract model knows the FFT grid only for the session's own focal length
        if w['arr'] and w['px'] is not None and w['fl'] == inf and w['t'] == 'pupil' and method == 'propagate_dft' and not w['tilt']:
            # no focal length was ever handed over (plane wave): the DFT propagator still accepts a pupil wavefront
            os_ = rng.choice([1, 2])
            n = rng.randint(2, 8)
            tag = dict(tag or {}, propagatable=True, infinite_focal_length=True)
            res = {'id': new_id, 't': 'image', 'px': (ph['du'] / os_, ph['du'] / os_), 'fl': inf, 'arr': True, 'tilt': False, 'shape': (n * os_, n * os_)}
            return {'c': c, 'fn': method, 'a': ['@' + w['id']], 'k': {'pixelscale': ph['du'], 'shape': [n, n], 'oversample': os_},
                    'id': new_id, 't': tag}, res
        tag = dict(tag or {})
        res = None
        if w['t'] == 'pupil' or not can:
            os_, n, extra = rng.choice(world['geoms']) if world.get('geoms') and rng.random() < 0.7 else (rng.choice([1, 2]), rng.randint(2, 8), rng.choice([0, 1]))
            if method == 'propagate_dft':
                k = {'pixelscale': ph['du'], 'shape': [n, n + extra], 'oversample': os_}
                shape = (k['shape'][0] * os_, k['shape'][1] * os_)
            else:
                k = {'pixelscale': ph['du'], 'oversample': os_}
                g = ph['n0'] * os_
                shape = (g, g)
            px = (ph['du'] / os_, ph['du'] / os_)
            ok = can and (method == 'propagate_dft' or (not w['tilt'] and max(w['shape']) <= ph['n0'] * os_))
            if ok:
                res = {'id': new_id, 't': 'image', 'px': px, 'fl': w['fl'], 'arr': True, 'tilt': False, 'shape': shape}
        else:
            pin = w['px'][0]
            if method == 'propagate_dft':
                n = rng.choice(world['geoms'])[1] if world.get('geoms') and rng.random() < 0.7 else rng.randint(2, 8)
                k = {'pixelscale': ph['dx'], 'shape': [n, n], 'oversample': 1}
                shape = (n, n)
                px = (ph['dx'], ph['dx'])
                ok = True
            else:
                N = max(w['shape']) + rng.randint(0, 4)
                dxo = ph['wl'] * w['fl'] / (pin * N)
                k = {'pixelscale': dxo, 'oversample': 1}
                shape = (N, N)
                px = (dxo, dxo)
                ok = not w['tilt']
            if ok:
                res = {'id': new_id, 't': 'pupil', 'px': px, 'fl': w['fl'], 'arr': True, 'tilt': False, 'shape': shape}
        tag['propagatable'] = res is not None
        if method == 'propagate_dft' and rng.random() < 0.2 and np.ndim(k.get('shape')) == 1:
            # an output mask only chooses which samples are evaluated; it has no say in what type comes out
            shp_ = [int(k['shape'][0]) * k.get('oversample', 1), int(k['shape'][1]) * k.get('oversample', 1)]
            k = dict(k, mask={'$nd': [[1.0 if (r_ + c_) % 3 else 0.0 for c_ in range(shp_[1])] for r_ in range(shp_[0])]})
            tag['output_mask'] = True
        e = {'c': c, 'fn': method, 'a': ['@' + w['id']], 'k': k, 'id': new_id, 't': tag}
        return e, res

    # ---------------------------------------------------------------- generation
    def generate(self, rng):
        world = self.base_world(rng)
        K = rng.randint(1, 3)
        world['K'] = K
        events = self.setup_events(world, rng)
        P = self.plane_models(world)
        pids = sorted(P)
        progs = []
        refuse_rate = rng.choice([0.1, 0.2, 0.35])
        for c in range(K):
            ws = self.wf_models(world)
            rng.shuffle(ws)
            prog = []
            nsteps = rng.randint(3, 12 * self.depth)
            counter = 0
            force_illegal_on = None
            while len(prog) < nsteps:
                counter += 1
                new_id = 'c%d_%d' % (c, counter)
                if force_illegal_on is not None:
                    w = force_illegal_on
                    force_illegal_on = None
                    ev = self.illegal_event(rng, world, c, w, P, pids, new_id, {'after_transition': True})
                    if ev is not None:
                        prog.append(ev)
                    continue
                w = rng.choice(ws[-4:] if rng.random() < 0.7 else ws)
                r = rng.random()
                if r < refuse_rate:
                    ev = self.illegal_event(rng, world, c, w, P, pids, new_id, None)
                    if ev is not None:
                        prog.append(ev)
                    continue
                if rng.random() < 0.06:
                    # the caller builds a plane of its own without mask=, assigns it another amplitude (other support), and the next
                    # product is one that must be refused: both operands -- the re-assigned plane included -- stay as they were
                    pid_ = 'c%d_p%d' % (c, counter)
                    prog.append({'c': c, 'fn': rng.choice(['Plane', 'Pupil']), 'id': pid_, 'k': {'amplitude': '@a0z', 'pixelscale': world['phys']['dx']}})
                    ptype_ = 'pupil' if prog[-1]['fn'] == 'Pupil' else 'none'
                    prog.append({'c': c, 'fn': 'setattr', 'a': ['@' + pid_, 'amplitude', '@a0'], 'id': pid_ + 's'})
                    bad_w = [x for x in ws if self.doc.result(x['t'], ptype_) is None or not self.px_ok(x, {'px': (world['phys']['dx'] * 1.0,) * 2})]
                    if bad_w:
                        counter += 1
                        prog.append(self.mul_event(rng, c, rng.choice(bad_w), pid_, 'c%d_%d' % (c, counter), {'reassigned_plane': True}))
                    continue
                if rng.random() < 0.05:
                    # a type a wavefront may not carry is assigned (refused): the wavefront is what it was, and goes on being used
                    prog.append({'c': c, 'fn': 'setattr', 'a': ['@' + w['id'], 'ptype', rng.choice(['tilt', 'transform', {'$ptype': 'tilt'}, 'bogus'])],
                                 'id': new_id, 't': {'refused_assignment': True}})
                    continue
                if rng.random() < 0.07:
                    # short-lived planes: built by type name, applied once, dropped -- each lands where the previous one lived
                    names = [rng.choice(PTYPES) for _ in range(rng.randint(4, 9))]
                    prog.append({'c': c, 'fn': 'churn.planes', 'a': ['@' + w['id'], names], 'id': new_id})
                    continue
                if rng.random() < 0.08:
                    cp = dict(w, id=new_id)
                    prog.append({'c': c, 'fn': 'deepcopy', 'a': ['@' + w['id']], 'id': new_id, 't': {'copy': True}})
                    ws.append(cp)
                    continue
                if r < refuse_rate + 0.25 and w['t'] in ('pupil', 'image'):
                    ev, res = self.prop_event(rng, world, c, w, new_id)
                    prog.append(ev)
                    if res is not None:
                        ws.append(res)
                        if rng.random() < 0.5:
                            force_illegal_on = res
                    continue
                legal = [pid for pid in pids if self.doc.result(w['t'], P[pid]['pt']) is not None and self.px_ok(w, P[pid])]
                weights = [0.3 if P[pid].get('rare') else 1.0 for pid in legal]
                pid = rng.choices(legal, weights)[0]
                res = self.mul_model(w, pid, P[pid], new_id)
                prog.append(self.mul_event(rng, c, w, pid, new_id))
                if not P[pid].get('rare'):
                    ws.append(res)
                    if res['t'] != w['t'] and rng.random() < 0.5:
                        force_illegal_on = res
            progs.append(prog)
        events += self.interleave(rng, progs, world)
        return {'scenario': self.name, 'world': world, 'events': events}

    def illegal_event(self, rng, world, c, w, P, pids, new_id, tag):
        # the statement promises TypeError for every forbidden product, also when the samplings disagree as well
        opts = [pid for pid in pids if self.doc.result(w['t'], P[pid]['pt']) is None]
        if w['t'] == 'none' and rng.random() < 0.5 or not opts:
            if w['t'] != 'none':
                return None
            ev, _ = self.prop_event(rng, world, c, w, new_id, tag=tag)
            return ev
        return self.mul_event(rng, c, w, rng.choice(opts), new_id, tag)

    @staticmethod
    def interleave(rng, progs, world):
        """The seeded scheduler: pick a runnable caller (or an environment event) per tick."""
        out = []
        pos = [0] * len(progs)
        while True:
            runnable = [c for c in range(len(progs)) if pos[c] < len(progs[c])]
            if not runnable:
                break
            if rng.random() < 0.08:
                out.append(rng.choice([{'env': 'cache_clear'}, {'env': 'cache', 'maxsize': rng.choice([0, 1, 2, 32])},
                                       {'env': 'rng_draw', 'n': rng.randint(1, 5)}]))
                continue
            c = rng.choice(runnable)
            out.append(progs[c][pos[c]])
            pos[c] += 1
            # duplicate delivery (F6): the same call again, result under a new name
            if rng.random() < 0.05 and out[-1].get('id'):
                d = copy.deepcopy(out[-1])
                d['id'] = d['id'] + 'd'
                d.setdefault('t', {})['dup'] = True
                out.append(d)
        return out

    # ---------------------------------------------------------------- directed prelude
    def prelude(self, verif_seed):
        import random
        rng = random.Random(verif_seed * 7919 + 1)
        world = self.base_world(rng)
        world['K'] = 1
        world['cache'] = 32
        events = self.setup_events(world, rng)
        P = self.plane_models(world)
        n = 0
        # every cell of the table with generic planes, every class on every seed wavefront
        for w in self.wf_models(world):
            for pid in sorted(P):
                n += 1
                if not self.px_ok(w, P[pid]):
                    continue
                events.append({'c': 0, 'fn': ['Plane.multiply', 'w*p', 'p*w', 'w*=p'][n % 4],
                               'a': (['@' + w['id'], '@' + pid] if n % 4 in (1, 3) else ['@' + pid, '@' + w['id']]),
                               'id': 'r%d' % n})
        # propagation from each type, refusal right after a transition
        wn = self.wf_models()[0]
        m = self.mul_model(wn, 'PUP', P['PUP'], 'pu')
        events.append({'c': 0, 'fn': 'Plane.multiply', 'a': ['@PUP', '@w_none'], 'id': 'pu'})
        events.append({'c': 0, 'fn': 'Plane.multiply', 'a': ['@g_image', '@pu'], 'id': 'bad1', 't': {'after_transition': True}})
        for meth in PROP:
            ev, res = self.prop_event(rng, world, 0, m, 'im_' + meth, method=meth)
            events.append(ev)
            events.append({'c': 0, 'fn': 'w*p', 'a': ['@' + res['id'], '@g_pupil'], 'id': 'bad_' + meth, 't': {'after_transition': True}})
            for meth2 in PROP:
                ev2, res2 = self.prop_event(rng, world, 0, res, 'pu_%s_%s' % (meth, meth2), method=meth2)
                events.append(ev2)
                if res2 is not None:
                    # straight after a propagation: planes that carry the very sampling the propagated wavefront has
                    for pid_ in ('PUP', 'GPA', 'PUPAMP'):
                        if self.px_ok(res2, P[pid_]):
                            events.append({'c': 0, 'fn': 'Plane.multiply', 'a': ['@' + pid_, '@' + res2['id']], 'id': 'after_%s_%s_%s' % (meth, meth2, pid_),
                                           't': {'after_propagation_same_sampling': True}})
            for pid_ in ('IMGPX1', 'IMGPX2'):
                if self.px_ok(res, P[pid_]):
                    events.append({'c': 0, 'fn': 'Plane.multiply', 'a': ['@' + pid_, '@' + res['id']], 'id': 'after_%s_%s' % (meth, pid_),
                                   't': {'after_propagation_same_sampling': True}})
            events.append({'c': 0, 'fn': 'Plane.multiply', 'a': ['@PUP', '@' + res['id']], 'id': 'badpx_' + meth, 't': {'px_conflict': True}})
            events.append({'c': 0, 'fn': 'w*p', 'a': ['@' + res['id'], '@PLN'], 'id': 'badpx2_' + meth, 't': {'px_conflict': True}})
            events.append({'c': 0, 'fn': 'Plane.multiply', 'a': ['@IMGA', '@' + res['id']], 'id': 'ia_' + meth})
            events.append({'c': 0, 'fn': 'Plane.multiply', 'a': ['@TLT', '@' + res['id']], 'id': 'it_' + meth})
            # ... and that image-plane wavefront, now carrying tilt, is still an image: the DFT takes it back to a pupil
            mt_ = self.mul_model(res, 'TLT', P['TLT'], 'it_' + meth)
            evb_, _ = self.prop_event(rng, world, 0, mt_, 'itb_' + meth, method='propagate_dft', tag={'tilted_image_back': True})
            events.append(evb_)
            events.append({'c': 0, 'fn': 'Plane.multiply', 'a': ['@DSP', '@' + res['id']], 'id': 'id_' + meth})
        for meth in PROP:
            ev, _ = self.prop_event(rng, world, 0, wn, 'np_' + meth, method=meth)
            events.append(ev)
        events.append({'c': 0, 'fn': 'w*=p', 'a': ['@w_none', '@GPA'], 'id': 'gp'})
        mg = self.mul_model(wn, 'GPA', P['GPA'], 'gp')
        ev, _ = self.prop_event(rng, world, 0, mg, 'gp_im', method='propagate_dft')
        events.append(ev)
        events.append({'c': 0, 'fn': 'w*=p', 'a': ['@pu', '@TLT'], 'id': 'pu_imul_t'})
        events.append({'c': 0, 'fn': 'w*=p', 'a': ['@pu', '@g_transform'], 'id': 'pu_imul_x'})
        events.append({'c': 0, 'fn': 'deepcopy', 'a': ['@pu'], 'id': 'pu_copy', 't': {'copy': True}})
        for meth in PROP:
            ev, res = self.prop_event(rng, world, 0, dict(m, id='pu_copy'), 'cim_' + meth, method=meth)
            events.append(ev)
            events.append({'c': 0, 'fn': 'deepcopy', 'a': ['@' + res['id']], 'id': 'cic_' + meth, 't': {'copy': True}})
            ev2, _ = self.prop_event(rng, world, 0, dict(res, id='cic_' + meth), 'cpu_' + meth, method='propagate_dft')
            events.append(ev2)
        # a wavefront with one field per segment (overlapping bounding boxes) meets planes that must refuse it: it is what it was
        events.append({'c': 0, 'fn': 'Plane.multiply', 'a': ['@PUPSEG', '@w_none'], 'id': 'pseg'})
        for n_, pid_ in enumerate(('IMG', 'IMGA', 'g_image', 'g_none', 'PLN')):
            events.append({'c': 0, 'fn': ['Plane.multiply', 'w*p', 'p*w', 'w*=p'][n_ % 4], 'id': 'pseg_%s' % pid_,
                           'a': (['@pseg', '@' + pid_] if n_ % 4 in (1, 3) else ['@' + pid_, '@pseg']), 't': {'segmented_operand': True}})
        # a wavefront that lost all its fields (two stops with disjoint masks) is still a pupil wavefront: same table, same refusals
        events.append({'c': 0, 'fn': 'Plane.multiply', 'a': ['@PUPL', '@w_none'], 'id': 'dk1'})
        events.append({'c': 0, 'fn': 'w*p', 'a': ['@dk1', '@PUPR'], 'id': 'dk2', 't': {'dark': True}})
        for n_, pid_ in enumerate(('g_image', 'g_none', 'IMG', 'PUP', 'TLT', 'g_transform', 'PLN')):
            events.append({'c': 0, 'fn': ['Plane.multiply', 'w*p', 'p*w', 'w*=p'][n_ % 4], 'id': 'dk_%s' % pid_,
                           'a': (['@dk2', '@' + pid_] if n_ % 4 in (1, 3) else ['@' + pid_, '@dk2']), 't': {'dark': True}})
        events.append({'c': 0, 'fn': 'setattr', 'a': ['@pu', 'ptype', 'tilt'], 'id': 'pu_badtype', 't': {'refused_assignment': True}})
        events.append({'c': 0, 'fn': 'Plane.multiply', 'a': ['@TLT', '@pu'], 'id': 'pu_after_badtype'})
        events.append({'c': 0, 'fn': 'Pupil', 'id': 'pz', 'k': {'amplitude': '@a0z', 'pixelscale': world['phys']['dx']}})
        events.append({'c': 0, 'fn': 'setattr', 'a': ['@pz', 'amplitude', '@a0'], 'id': 'pzs'})
        events.append({'c': 0, 'fn': 'Plane.multiply', 'a': ['@pz', '@w_image'], 'id': 'pz_bad', 't': {'reassigned_plane': True}})
        # a wavefront that already carries a focal length meets pupils with other focal lengths, then propagates
        events.append({'c': 0, 'fn': 'Plane.multiply', 'a': ['@PUP2', '@pu'], 'id': 'pu2'})
        events.append({'c': 0, 'fn': 'w*p', 'a': ['@pu2', '@PUPS2'], 'id': 'pu3'})
        m3 = self.mul_model(self.mul_model(m, 'PUP2', P['PUP2'], 'pu2'), 'PUPS2', P['PUPS2'], 'pu3')
        ev, _ = self.prop_event(rng, world, 0, m3, 'pu3_im', method='propagate_dft')
        events.append(ev)
        events.append({'c': 0, 'fn': 'Plane.multiply', 'a': ['@PUP', '@w_none_f'], 'id': 'pf'})
        events.append({'c': 0, 'fn': 'Plane.multiply', 'a': ['@PUP', '@w_pupil_f'], 'id': 'pf2'})
        for pid in ('TLTP', 'DSPI'):
            for w in self.wf_models():
                n += 1
                events.append({'c': 0, 'fn': 'Plane.multiply', 'a': ['@' + pid, '@' + w['id']], 'id': 'r%d' % n})
        for w in self.wf_models():
            n += 1
            events.append({'c': 0, 'fn': 'churn.planes', 'a': ['@' + w['id'], [PTYPES[(j * 2 + n) % len(PTYPES)] for j in range(10)]], 'id': 'churn%d' % n})
        # durable state across a process boundary: planes / wavefronts pickled by an interpreter with another string-hash seed
        events.append({'c': 0, 'fn': 'foreign.products', 'a': [list(PTYPES), 101 + verif_seed % 7], 'id': 'foreign'})
        # tilt on a pupil with arrays, then DFT (tilt-carrying wavefront is propagatable by DFT)
        events.append({'c': 0, 'fn': 'Plane.multiply', 'a': ['@TLT', '@pu'], 'id': 'pt'})
        mt = dict(m, id='pt', tilt=True)
        ev, _ = self.prop_event(rng, world, 0, mt, 'pt_im', method='propagate_dft')
        events.append(ev)
        return [{'scenario': self.name, 'world': world, 'events': events, 'run_index': -100, 'seed': 0}]

    # ---------------------------------------------------------------- execution
    def hooks(self, L, run):
        return PtypeHooks(self.doc)

    def execute(self, L, run):
        it = Interp(L, run['world'], self.fns, PtypeHooks(self.doc))
        it.run(run['events'])
        extra = []
        states = set()
        for (i, c, fn, brief) in it.history:
            states.add('%s>%s' % (fn, brief.split(':')[0]))
        for k in it.probes:
            if k.startswith('cell:') or k.startswith('prop:'):
                states.add(k)
        # C08.serial: a refusal (or anything else another caller did) must not leak
        callers = callers_of(run['events'])
        if len(callers) > 1:
            inter = {}
            for (i, c, fn, brief) in it.history:
                inter.setdefault(c, []).append((fn, brief))
            for c in callers:
                solo = Interp(L, dict(run['world'], cache=32), self.fns, None, env_enabled=False)
                solo.run(solo_events(run['events'], c))
                s = [(fn, brief) for (i, cc, fn, brief) in solo.history if cc == c]
                it.probe('check:serial')
                if s != inter.get(c, []):
                    first = next((a[0] for a, b in zip(s, inter.get(c, [])) if a != b), 'length')
                    extra.append(Violation('C08.serial', {'fn': first},
                                           'caller %d: interleaved outcomes differ from its solo run' % c).to_json())
            it.fault('interleave')
        return self.result(it, extra, states)
