"""C18 -- stochastic models: reproducible from the seed, physically bounded (DESIGN.md 7.9).

K callers call the seeded models (shot noise both methods, read noise, dark current, rule-07
dark current, power-spectrum WFE) and the unseeded cosmic-ray model in an interleaved schedule
while the environment perturbs and reseeds numpy's global RNG between steps (fault F4).  The
simulator owns the global RNG: "for every random state" = every state the seeded search puts it in.
"""
import copy

import numpy as np

from ..core import Interp, Hooks, Violation, decode
from .. import fresh
from .base import Scenario, solo_events, callers_of

SEEDED = ('shot_noise', 'read_noise', 'dark_current', 'rule07_dark_current', 'power_spectrum')
BIG = 9.223372006484771e+18


def canonical_seed(seed):
    """numpy's SeedSequence reads an int, or each int of a sequence, as little-endian 32-bit words, and trailing zero words do not
    count: 7, [7], (7,), np.int64(7), [7, 0] are one seed, 7 + 2**32 and [7, 1] are one seed.  -> tuple of words."""
    words = []
    for x in np.atleast_1d(np.asarray(seed, dtype=object)).ravel().tolist():
        x = int(x)
        if x == 0:
            words.append(0)
        while x > 0:
            words.append(x & 0xFFFFFFFF)
            x >>= 32
    while len(words) > 1 and words[-1] == 0:
        words.pop()
    return tuple(words)


def _rng_state():
    s = np.random.get_state()
    return (s[1].tobytes(), s[2], s[3], s[4])


class StochHooks(Hooks):
    prefix = 'C18'
    def __init__(self):
        self.rng0 = None
        self.state0 = None
        self.by_call = {}      # call signature without seed -> {seed: digest}
        self.first = {}
        self.held = {}         # result id -> digest: frames the callers still hold
        self.inputs = {}       # id -> digest of every caller-owned input array (frames, masks, rate maps)

    def on_dirty(self, it, tid):
        if tid in self.held:
            self.held[tid] = it.dig(it.store[tid])      # the caller itself wrote into a frame it holds
            # ... which is the caller's own, new array: writing into it cannot reach any argument it was computed from
            for k, d0 in self.inputs.items():
                if k in it.store and k != tid and it.dig(it.store[k]) != d0:
                    it.violate('C18.repro', {'fn': it.meta.get(tid, {}).get('fn', '?'), 'what': 'result-aliases-argument'},
                               'writing into the frame returned by %s changed the caller\'s input %s: the result is (a view of) its argument, '
                               'so the same call no longer sees the same argument' % (it.meta.get(tid, {}).get('fn', '?'), k), None)
                    self.inputs[k] = it.dig(it.store[k])
        if tid in self.inputs:
            self.inputs[tid] = it.dig(it.store[tid])    # the owner edited its own input (poke)

    def before(self, it, i, ev):
        self.pending_fresh = fresh.describe_call(it, ev) if (ev.get('t', {}).get('fresh') and ev['fn'] in SEEDED) else None
        self.rng0 = _rng_state()
        self.state0 = np.random.get_state()
        self.rate0 = np.array(it.resolve(ev['a'][0]), dtype=float, copy=True) if ev['fn'] == 'dark_current' and ev.get('a') else None

    def after(self, it, i, ev, out):
        fn = ev['fn']
        tag = ev.get('t', {})
        k = ev.get('k', {})
        # a model is a function OF its arguments: it does not rewrite them
        for k_, v_ in it.store.items():
            if isinstance(v_, (np.ndarray, list)) and k_ not in self.held:
                d_ = it.dig(v_)
                if k_ in self.inputs and self.inputs[k_] != d_ and fn in SEEDED + ('cosmic_rays',):
                    it.probe('check:arguments')
                    it.violate('C18.repro', {'fn': fn, 'what': 'argument-changed'},
                               '%s changed the caller-owned array %s it was (or was not even) given' % (fn, k_), i)
                self.inputs[k_] = d_
        # a frame a caller still holds is the draw it asked for, whatever is drawn afterwards (by anybody)
        for rid, d0 in self.held.items():
            if rid in it.store and it.dig(it.store[rid]) != d0:
                it.probe('check:held')
                it.violate('C18.repro', {'fn': it.meta.get(rid, {}).get('fn', '?'), 'what': 'earlier-result-changed'},
                           'a frame returned earlier by %s (store id %s) changed during a later %s' % (it.meta.get(rid, {}).get('fn', '?'), rid, fn), i)
                self.held[rid] = it.dig(it.store[rid])
        if out.ok and ev.get('id') and (fn in SEEDED or fn == 'cosmic_rays'):
            self.held[ev['id']] = it.dig(out.value)
            it.probe('check:held')
        if fn in SEEDED:
            it.probe('check:isolated')
            if _rng_state() != self.rng0:
                it.violate('C18.isolated', {'fn': fn}, '%s (seed=%r) read or advanced the global numpy random state' % (fn, k.get('seed')), i)
            if tag.get('after_rng_fault'):
                it.probe('seeded_after_reseed')
        if getattr(self, 'pending_fresh', None) is not None:
            # "a deterministic function of its arguments and seed": the same call on clones in a process that never ran anything else
            pending, self.pending_fresh = self.pending_fresh, None
            it.probe('pristine_process_comparison')
            if tag.get('twin'):
                it.probe('one_argument_twin')
            fresh.judge(it, i, ev, out, pending, 'C18.repro', {'fn': fn, 'what': 'pristine-process'})
        if fn in SEEDED and out.ok:
            # repeat = first (F6) and a different seed gives a different draw
            # "same arguments" means same values: a Fortran-ordered or transposed-view frame with equal content is the same frame
            sig = repr((fn, [it.dig(it.resolve(x)) for x in ev.get('a', [])], {kk: v for kk, v in k.items() if kk != 'seed'}))
            d = it.dig(out.value)
            seeds = self.by_call.setdefault(sig, {})
            sd_ = k.get('seed')
            if isinstance(sd_, str) and sd_.startswith('@'):
                it.probe('seed_in_a_caller_owned_list')
                sd_ = it.resolve(sd_)
            else:
                sd_ = decode(sd_)
            sd = repr(canonical_seed(sd_))
            if sd in seeds:
                it.probe('check:repro')
                it.fault('dup')
                if tag.get('layout_twin'):
                    it.probe('layout_twin')
                if seeds[sd] != d:
                    it.violate('C18.repro', {'fn': fn, 'what': 'repeat'},
                               '%s with the same arguments and seed %s returned a different frame the second time' % (fn, sd), i)
            else:
                if tag.get('wide_seed'):
                    it.probe('seed_beyond_32_bits')
                if tag.get('distinct_expected'):
                    for other, od in seeds.items():
                        it.probe('check:differ')
                        if od == d:
                            it.violate('C18.differ', {'fn': fn}, '%s returned the identical frame for seeds %s and %s' % (fn, other, sd), i)
                seeds[sd] = d
        if fn == 'foreign.seeded':
            it.probe('second_interpreter')
            it.probe('check:repro')
            it.fault('restart')
            if not out.ok:
                it.violate('C18.repro', {'fn': 'second-interpreter', 'what': 'raised'}, 'seeded models in a second interpreter: %r' % (out.exc,), i)
            else:
                for call, (here, there) in sorted(out.value.items()):
                    if here != there:
                        it.violate('C18.repro', {'fn': call.split('/')[0], 'what': 'differs-between-interpreters'},
                                   '%s gives one frame in an interpreter started with PYTHONHASHSEED=0 and another with PYTHONHASHSEED=%s: not a '
                                   'function of its arguments and seed' % (call, ev['a'][0]), i)
                        break
        if fn == 'series.read_noise' and out.ok:
            # per-pixel statistics over many seeds, on regions of a few pixels (where a per-frame correction would show)
            x = np.asarray(out.value, dtype=float)
            npix, sigma, ns = int(ev['a'][0]), float(ev['a'][1]), x.shape[0]
            it.probe('read_noise_small_region_series')
            it.probe('check:moments')
            n = x.size
            mean, sd_ = float(x.mean()), float(x.std(ddof=0))
            if abs(mean) > 7 * sigma / np.sqrt(n) + 1e-12:
                it.violate('C18.moments', {'fn': 'read_noise', 'what': 'mean', 'region': 'small'},
                           'mean %g over %d readouts of %d pixel(s) (7 s.e. = %g)' % (mean, ns, npix, 7 * sigma / np.sqrt(n)), i)
            # chi-square bound for the standard deviation about the true mean 0: sd^2 * n / sigma^2 ~ chi2(n), s.e. of sd ~ sigma / sqrt(2n)
            rms0 = float(np.sqrt(np.mean(x ** 2)))
            if abs(rms0 - sigma) > 7 * sigma / np.sqrt(2 * n):
                it.violate('C18.moments', {'fn': 'read_noise', 'what': 'sigma', 'region': 'small'},
                           'r.m.s. %g about zero for requested %g over %d readouts of %d pixel(s) (7 s.e. = %g)'
                           % (rms0, sigma, ns, npix, 7 * sigma / np.sqrt(2 * n)), i)
        if fn == 'shot_noise':
            self._shot(it, i, ev, out)
        elif fn == 'read_noise' and out.ok:
            self._read(it, i, ev, out)
        elif fn in ('dark_current', 'rule07_dark_current') and out.ok:
            self._dark(it, i, ev, out)
        elif fn == 'power_spectrum':
            self._psd(it, i, ev, out)
        elif fn == 'cosmic_rays':
            self._cosmic(it, i, ev, out)

    # ---- per-model oracles
    def _shot(self, it, i, ev, out):
        img = np.asarray(it.resolve(ev['a'][0]), dtype=float)
        method = ev.get('k', {}).get('method', 'poisson')
        bad = (img.size and (np.min(img) < 0 or np.max(img) > BIG))
        it.probe('check:support')
        if bad:
            it.fault('refuse')
            it.probe('shot_bad_signal:%s' % method)
            if np.min(img) < 0 and np.min(img) > -1e-6 * np.max(img):
                it.probe('shot_tiny_negative')
            if ev.get('t', {}).get('edited_frame'):
                it.probe('shot_frame_edited_between_calls')
            if out.ok:
                it.violate('C18.support', {'fn': 'shot_noise', 'method': method,
                                           'what': 'negative-accepted' if np.min(img) < 0 else 'huge-accepted'},
                           'shot_noise(method=%s) accepted a signal with min %g max %g and returned values in [%g, %g]'
                           % (method, np.min(img), np.max(img), np.min(out.value), np.max(out.value)), i)
            return
        if not out.ok:
            it.violate('C18.support', {'fn': 'shot_noise', 'method': method, 'what': 'valid-signal-refused', 'exc': type(out.exc).__name__},
                       'shot_noise refused a valid signal: %r' % (out.exc,), i)
            return
        r = np.asarray(out.value, dtype=float)
        if r.shape == img.shape and np.any(img == 0):
            it.probe('shot_zero_signal_pixels')
            if np.any(r[img == 0] != 0):
                it.violate('C18.support', {'fn': 'shot_noise', 'method': method, 'what': 'counts-where-there-is-no-signal'},
                           'pixels with exactly zero signal came back as %s' % np.unique(r[img == 0])[:4], i)
        regime = method == 'poisson' or (img.size and np.min(img) >= 1000)
        if r.shape != img.shape:
            it.violate('C18.support', {'fn': 'shot_noise', 'method': method, 'what': 'shape'}, 'shape %s for signal %s' % (r.shape, img.shape), i)
            return
        if regime and (np.any(r < 0) or np.any(r != np.floor(r)) or not np.all(np.isfinite(r))):
            it.violate('C18.support', {'fn': 'shot_noise', 'method': method, 'what': 'not-nonnegative-integers'},
                       'shot noise frame has min %g, non-integers: %s' % (np.min(r), bool(np.any(r != np.floor(r)))), i)
        if regime and img.size >= 4096 and np.all(img == img.flat[0]):
            lam = float(img.flat[0])
            n = img.size
            it.probe('check:moments')
            it.probe('moments:shot_' + method)
            mean, var = r.mean(), r.var(ddof=1)
            bias = 0.5 if method == 'gaussian' else 0.0     # truncation to integers of a continuous draw
            if abs(mean - lam) > 7 * np.sqrt(lam / n) + bias + 1e-9:
                it.violate('C18.moments', {'fn': 'shot_noise', 'method': method, 'what': 'mean'},
                           'mean %g for signal %g over %d pixels (7 s.e. = %g)' % (mean, lam, n, 7 * np.sqrt(lam / n)), i)
            se = np.sqrt((lam + 2 * lam * lam) / n)
            if lam > 0 and abs(var - lam) > 7 * se + 0.1:
                it.violate('C18.moments', {'fn': 'shot_noise', 'method': method, 'what': 'variance'},
                           'variance %g for signal %g over %d pixels (7 s.e. = %g)' % (var, lam, n, 7 * se), i)

    def _read(self, it, i, ev, out):
        img = np.asarray(it.resolve(ev['a'][0]), dtype=float)
        sigma = float(ev['a'][1])
        r = np.asarray(out.value, dtype=float)
        it.probe('check:support')
        if r.shape != img.shape or not np.all(np.isfinite(r)):
            it.violate('C18.support', {'fn': 'read_noise', 'what': 'shape-or-finite'}, 'shape %s finite %s' % (r.shape, np.all(np.isfinite(r))), i)
            return
        if ev.get('t', {}).get('mega'):
            it.probe('read_noise_megapixel_frame')
            rows = np.std(r - img, axis=1)
            if np.any(rows == 0):
                it.violate('C18.moments', {'fn': 'read_noise', 'what': 'rows-without-noise'}, '%d of %d rows of a %s frame received no noise at all'
                           % (int(np.sum(rows == 0)), rows.size, r.shape), i)
        if img.size >= 4096 and sigma > 0:
            noise = r - img
            n = img.size
            it.probe('check:moments')
            it.probe('moments:read')
            if abs(noise.mean()) > 7 * sigma / np.sqrt(n):
                it.violate('C18.moments', {'fn': 'read_noise', 'what': 'mean'}, 'noise mean %g, sigma %g, n %d' % (noise.mean(), sigma, n), i)
            if abs(noise.var(ddof=1) - sigma ** 2) > 7 * sigma ** 2 * np.sqrt(2.0 / (n - 1)):
                it.violate('C18.moments', {'fn': 'read_noise', 'what': 'std'}, 'noise std %g, requested %g, n %d' % (noise.std(ddof=1), sigma, n), i)

    def _dark(self, it, i, ev, out):
        fn = ev['fn']
        k = ev.get('k', {})
        r = np.asarray(out.value, dtype=float)
        it.probe('check:support')
        shape = decode(k.get('shape', 1))
        if np.ndim(shape) and r.shape != tuple(shape):
            it.violate('C18.support', {'fn': fn, 'what': 'shape'}, 'shape %s requested %s' % (r.shape, shape), i)
            return
        if np.any(r < 0) or np.any(r != np.floor(r)) or not np.all(np.isfinite(r)):
            it.violate('C18.support', {'fn': fn, 'what': 'not-nonnegative-integers'}, 'dark frame min %g' % np.min(r), i)
        if not k.get('fpn_factor', 0):
            it.probe('dark_no_fpn')
            if fn == 'dark_current':
                rate = self.rate0 if self.rate0 is not None else np.asarray(it.resolve(ev['a'][0]), dtype=float)
                if rate.ndim == 0 and (rate >= 1e9 or abs(rate - round(float(rate))) < 1e-6):
                    it.probe('dark_rate_at_an_edge')
                if rate.ndim:
                    it.probe('dark_rate_map')
                if np.any(r != np.floor(rate)):
                    it.violate('C18.support', {'fn': fn, 'what': 'floor-of-rate'}, 'dark frame without pattern noise is %s, floor(rate) = %s'
                               % (np.unique(r)[:4], np.unique(np.floor(rate))[:4]), i)
            elif r.size and np.any(r != r.flat[0]):
                it.violate('C18.support', {'fn': fn, 'what': 'floor-of-rate'}, 'rule07 dark frame without pattern noise is not constant', i)

    def _psd(self, it, i, ev, out):
        mask = np.asarray(it.resolve(ev['a'][0]))
        k = ev.get('k', {})
        it.probe('check:support')
        square = mask.shape[0] == mask.shape[1]
        it.probe('psd_square' if square else 'psd_nonsquare')
        if not out.ok:
            it.violate('C18.support', {'fn': 'power_spectrum', 'what': 'raised', 'mask': 'square' if square else 'non-square',
                                       'exc': type(out.exc).__name__},
                       'power_spectrum raised %r for a %s mask' % (out.exc, mask.shape), i)
            return
        r = np.asarray(out.value, dtype=float)
        if r.shape != mask.shape:
            it.violate('C18.support', {'fn': 'power_spectrum', 'what': 'shape'}, 'shape %s for mask %s' % (r.shape, mask.shape), i)
            return
        if np.any(r[mask == 0] != 0):
            it.violate('C18.support', {'fn': 'power_spectrum', 'what': 'nonzero-outside-mask'}, 'surface error is non-zero outside its mask', i)
        inside = r[mask != 0]
        rms = np.sqrt(np.mean(inside ** 2)) if inside.size else 0.0
        if inside.size >= 4 and abs(rms - k['rms']) > 1e-9 * k['rms']:
            it.violate('C18.support', {'fn': 'power_spectrum', 'what': 'rms', 'mask': 'square' if square else 'non-square'},
                       'RMS over the mask is %r, requested %r' % (rms, k['rms']), i)

    def _cosmic(self, it, i, ev, out):
        it.probe('check:cosmic')
        shape = tuple(ev['a'][0])
        if not out.ok:
            it.violate('C18.cosmic', {'what': 'raised', 'exc': type(out.exc).__name__}, 'cosmic_rays raised %r' % (out.exc,), i)
            return
        r = np.asarray(out.value, dtype=float)
        if r.shape != shape or not np.all(np.isfinite(r)) or np.any(r < 0):
            it.violate('C18.cosmic', {'what': 'shape-finite-nonnegative'},
                       'cosmic ray frame: shape %s (requested %s), finite %s, min %g' % (r.shape, shape, np.all(np.isfinite(r)), np.min(r)), i)
        if np.any(r > 0):
            it.probe('cosmic_hit')
        # a deterministic function of the global state it started from
        after = np.random.get_state()
        np.random.set_state(self.state0)
        again = it.call(ev)
        if not again.ok or not np.array_equal(np.asarray(again.value), r) or _rng_state() != (after[1].tobytes(), after[2], after[3], after[4]):
            it.violate('C18.cosmic', {'what': 'not-a-function-of-the-global-state'},
                       'cosmic_rays restarted from the same global random state gave a different frame or consumed a different number of draws', i)
        np.random.set_state(after)


class StochasticScenario(Scenario):
    name = 'stochastic'
    prop = 'C18'
    uses_fresh = True
    quick_runs = 1200
    thorough_runs = 100000
    audit_every = 8
    rule = ('each run = 2-4 callers issuing seeded model calls (shot noise poisson/gaussian, read noise, dark current with and without '
            'fixed-pattern noise, rule-07 dark current, power-spectrum surface error on square and non-square masks; int and array seeds; '
            'square and non-square frames; one run in six uses 64x64 frames for moment checks) and unseeded cosmic-ray frames, interleaved '
            'by the seeded scheduler with global-RNG draws and reseeds (F4), repeated calls (F6) and signals that must be refused '
            '(negative or > 9.22e18 pixels); further workload ingredients added by the seeded rounds are listed in MANIFEST.json and DESIGN.md section 15; distinct = distinct history digest; non-trivial = at least one RNG perturbation, duplicate or '
            'refusal fired and at least one oracle comparison was made')
    state_measure = 'distinct (model, option class, outcome) tuples reached'
    assumptions = ['moment checks use 7 standard errors on >= 4096 pixels with seeds derived from VERIF_SEED (false-alarm probability per '
                   'check about 3e-12, and any alarm replays exactly)',
                   'Gaussian shot noise is judged for support and moments only for signals >= 1000 (its documented regime); a 0.5 count '
                   'truncation bias is allowed on its mean',
                   'different seeds are required to give different frames only for read noise on >= 16 pixels and Poisson noise with every '
                   'pixel >= 100 on >= 16 pixels (collision probability < 1e-30)',
                   'seed=None (OS entropy) is never used: the simulator always passes seeds']
    must_hit = ['seeded_after_reseed', 'psd_nonsquare', 'psd_square', 'shot_bad_signal:gaussian', 'shot_bad_signal:poisson',
                'moments:shot_poisson', 'moments:shot_gaussian', 'moments:read', 'dark_no_fpn', 'cosmic_hit', 'layout_twin',
                'shot_tiny_negative', 'dark_rate_at_an_edge', 'pristine_process_comparison', 'shot_frame_edited_between_calls', 'seed_beyond_32_bits', 'one_argument_twin', 'shot_zero_signal_pixels', 'read_noise_megapixel_frame', 'dark_rate_map', 'seed_in_a_caller_owned_list', 'second_interpreter', 'read_noise_small_region_series']
    probe_names = must_hit + ['coldwarm_audit']

    # ---------------------------------------------------------------- generation
    def setup(self, rng, world, big):
        ev = []
        n = 64 if big else rng.randint(3, 9)
        m = 64 if big else rng.randint(3, 9)
        world['shapes'] = {'F': [n, m], 'Q': [rng.randint(4, 10)] * 2, 'R': [rng.randint(4, 9), rng.randint(10, 14)]}
        lam = rng.choice([3.0, 50.0, 2000.0, 1e5])
        ev.append({'c': -1, 'fn': 'array', 'id': 'FLAT', 'recipe': {'kind': 'const', 'shape': 'F', 'value': lam}})
        ev.append({'c': -1, 'fn': 'array', 'id': 'FLATG', 'recipe': {'kind': 'const', 'shape': 'F', 'value': rng.choice([1500.0, 4e4, 1e6])}})
        ev.append({'c': -1, 'fn': 'array', 'id': 'IMG', 'recipe': {'kind': 'uniform', 'shape': 'F', 'lo': 100.0, 'hi': 5000.0, 'seed': rng.randrange(10 ** 6)}})
        ev.append({'c': -1, 'fn': 'array', 'id': 'IMGG', 'recipe': {'kind': 'uniform', 'shape': 'F', 'lo': 1500.0, 'hi': 90000.0, 'seed': rng.randrange(10 ** 6)}})
        ev.append({'c': -1, 'fn': 'array', 'id': 'IMGL', 'recipe': {'kind': 'uniform', 'shape': 'F', 'lo': 0.0, 'hi': 20.0, 'seed': rng.randrange(10 ** 6)}})
        ev.append({'c': -1, 'fn': 'array', 'id': 'NEG', 'recipe': {'kind': 'add', 'x': {'kind': 'uniform', 'shape': 'F', 'lo': 1500.0, 'hi': 5000.0, 'seed': 1},
                                                                   'y': {'kind': 'spike', 'shape': 'F', 'value': -9000.0, 'pos': [rng.randint(0, 2), rng.randint(0, 2)]}}})
        ev.append({'c': -1, 'fn': 'array', 'id': 'HUGE', 'recipe': {'kind': 'add', 'x': {'kind': 'uniform', 'shape': 'F', 'lo': 1500.0, 'hi': 5000.0, 'seed': 2},
                                                                    'y': {'kind': 'spike', 'shape': 'F', 'value': 9.5e18, 'pos': [1, 1]}}})
        # a pixel between the documented 10-sigma guard (9.223372006e18) and 2**63
        ev.append({'c': -1, 'fn': 'array', 'id': 'HUGE2', 'recipe': {'kind': 'add', 'x': {'kind': 'uniform', 'shape': 'F', 'lo': 1500.0, 'hi': 5000.0, 'seed': 3},
                                                                     'y': {'kind': 'spike', 'shape': 'F', 'value': 9.2233720300e18, 'pos': [0, 1]}}})
        # a negative pixel that is tiny next to the frame's peak is still a negative signal
        bg, peak, neg = rng.choice([(3000.0, 5000.0, -1e-12), (1e4, 1e4, -1e-4), (2000.0, 1e7, -0.1), (5000.0, 1e10, -100.0), (50.0, 80.0, -1e-300)])
        ev.append({'c': -1, 'fn': 'array', 'id': 'NEGT', 'recipe': {'kind': 'set', 'x': {'kind': 'const', 'shape': 'F', 'value': bg},
                                                                    'pixels': [[0, 0, peak], [rng.randint(0, 2), rng.randint(1, 2), neg]]}})
        ev.append({'c': -1, 'fn': 'array', 'id': 'NEGALL', 'recipe': {'kind': 'const', 'shape': 'F', 'value': rng.choice([-3.0, -1e-9, -2000.0])}})
        # a bright frame with a dark corner of exactly zero signal (shot noise of no signal is no counts, in both methods)
        ev.append({'c': -1, 'fn': 'array', 'id': 'ZER', 'recipe': {'kind': 'set', 'x': {'kind': 'uniform', 'shape': 'F', 'lo': 5000.0, 'hi': 40000.0, 'seed': 5},
                                                                   'pixels': [[0, 0, 0.0], [0, 1, 0.0], [1, 0, 0.0], [2, 2, 0.0]]}})
        # integer-typed electron frames (read noise must still be zero-mean with the requested sigma)
        ev.append({'c': -1, 'fn': 'array', 'id': 'IMGI', 'recipe': {'kind': 'integers', 'shape': 'F', 'lo': 100, 'hi': 5000, 'seed': rng.randrange(10 ** 6),
                                                                    'dtype': rng.choice(['int32', 'int64', 'uint16'])}})
        # high dynamic range: faint background, one pixel beyond the 32-bit range (legal: the documented limit is 9.22e18)
        ev.append({'c': -1, 'fn': 'array', 'id': 'HDR', 'recipe': {'kind': 'set', 'x': {'kind': 'uniform', 'shape': 'F', 'lo': 0.0, 'hi': 20.0, 'seed': 7},
                                                                   'pixels': [[1, 1, rng.choice([3e9, 2.2e9, 5e12])]]}})
        # a seed the caller keeps in a list of its own and hands to several models
        ev.append({'c': -1, 'fn': 'pylist', 'id': 'SEEDL', 'a': [[rng.randrange(1000), rng.randrange(1, 1000)]]})
        ev.append({'c': -1, 'fn': 'asfortran', 'id': 'IMG_F', 'a': ['@IMG']})
        ev.append({'c': -1, 'fn': 'transposed_view', 'id': 'IMG_T', 'a': ['@IMG']})
        ev.append({'c': -1, 'fn': 'asfortran', 'id': 'FLATG_F', 'a': ['@IMGG']})
        ev.append({'c': -1, 'fn': 'array', 'id': 'RATE', 'recipe': {'kind': 'uniform', 'shape': 'F', 'lo': 3.3, 'hi': 90.7, 'seed': rng.randrange(10 ** 6)}})
        ev.append({'c': -1, 'fn': 'array', 'id': 'MQ', 'recipe': {'kind': 'disk', 'shape': 'Q', 'radius': world['shapes']['Q'][0] / 2.0 - 0.2}})
        ev.append({'c': -1, 'fn': 'array', 'id': 'MQB', 'recipe': {'kind': 'disk', 'shape': [18, 18], 'radius': 8.7, 'dtype': rng.choice(['bool', 'uint8', 'int8', 'int16'])}})
        ev.append({'c': -1, 'fn': 'array', 'id': 'MR', 'recipe': {'kind': rng.choice(['disk', 'rect', 'ones']), 'shape': 'R', 'radius': 3.3,
                                                                  'half': [2, 4]}})
        return ev

    def calls(self, rng, c, world, n):
        out = []
        cnt = [0]

        def E(fn, a=None, k=None, t=None):
            cnt[0] += 1
            e = {'c': c, 'fn': fn, 'id': 'c%d_r%d' % (c, cnt[0])}
            if a is not None:
                e['a'] = a
            if k:
                e['k'] = k
            if t:
                e['t'] = t
            out.append(e)
            return e

        last_seed = [7]

        def seed():
            r = rng.random()
            if r < 0.3:      # a neighbour of the previous integer seed (s+1, s-1, s^1): still a different seed
                s_ = max(0, last_seed[0] + rng.choice([1, -1, (last_seed[0] ^ 1) - last_seed[0]]))
            else:
                # (array seeds never end in 0: numpy's SeedSequence pads with zeros, so [7, 0] IS the seed 7)
                s_ = rng.choice([0, rng.randrange(2 ** 31), rng.randrange(100), [rng.randrange(100), rng.randrange(1, 100)],
                                 last_seed[0] + 2 ** 32, last_seed[0] + 2 ** 64, 2 ** 63 + rng.randrange(100),
                                 {'$nd': [rng.randrange(100), rng.randrange(1, 100)], 'dtype': 'uint32'},         # an integer ndarray
                                 {'$tuple': [rng.randrange(100), rng.randrange(1, 100)]}])
            if isinstance(s_, int):
                last_seed[0] = s_
            return s_

        for _ in range(n):
            if out and out[-1].get('fn') in SEEDED and not out[-1].get('t', {}).get('twin') and rng.random() < 0.2:
                # the same call with exactly one other argument (same seed, same shape): state left behind by the first must not carry over
                d = copy.deepcopy(out[-1])
                cands = [('k', k_) for k_, v_ in d.get('k', {}).items() if k_ != 'seed' and isinstance(v_, (int, float)) and not isinstance(v_, bool)] + \
                        [('a', j_) for j_, v_ in enumerate(d.get('a', [])) if isinstance(v_, (int, float)) and not isinstance(v_, bool)]
                if cands:
                    where, key = rng.choice(cands)
                    v_ = d[where][key]
                    d[where][key] = (v_ * 2 + 0.1) if v_ else 0.3
                    cnt[0] += 1
                    d['id'] = 'c%d_r%d' % (c, cnt[0])
                    d['t'] = {'twin': True, 'fresh': True}
                    out.append(d)
            if out and out[-1].get('fn') in ('read_noise', 'power_spectrum') and isinstance(out[-1].get('k', {}).get('seed'), int) and rng.random() < 0.25:
                # the same call with a seed that differs only beyond the low 32 (or 64) bits: a different seed, a different draw
                d = copy.deepcopy(out[-1])
                cnt[0] += 1
                d['id'] = 'c%d_r%d' % (c, cnt[0])
                d['k']['seed'] = d['k']['seed'] + rng.choice([2 ** 32, 2 ** 33, 2 ** 64, 3 * 2 ** 32])
                d['t'] = {'distinct_expected': not (d['fn'] == 'read_noise' and not d['a'][1]), 'wide_seed': True}
                out.append(d)
            r = rng.random()
            if r < 0.06:
                # one frame object through a Monte-Carlo loop: valid, then edited in place by its owner so that it is not, then valid again
                fr = 'c%d_f%d' % (c, cnt[0] + 1)
                cnt[0] += 1
                out.append({'c': c, 'fn': 'np.copy', 'a': ['@' + rng.choice(['IMGG', 'IMG'])], 'id': fr})
                m1 = rng.choice(['poisson', 'gaussian'])
                E('shot_noise', ['@' + fr], {'method': m1, 'seed': seed()})
                out.append({'env': 'poke', 'c': c, 'target': '@' + fr, 'pos': [rng.randint(0, 2), rng.randint(0, 2)],
                            'value': rng.choice([-250.0, -1e-3, 9.5e18])})
                E('shot_noise', ['@' + fr], {'method': rng.choice(['gaussian', 'gaussian', 'poisson']), 'seed': seed()}, t={'edited_frame': True})
                out.append({'env': 'poke', 'c': c, 'target': '@' + fr, 'pos': out[-2]['pos'], 'value': 3000.0})
                E('shot_noise', ['@' + fr], {'method': m1, 'seed': seed()})
                continue
            if 0.06 <= r < 0.09:
                # one seed object, kept by the caller in a list, handed to two or three models in a row
                for _q in range(rng.randint(2, 3)):
                    which = rng.choice(['read_noise', 'shot_noise', 'dark_current', 'power_spectrum'])
                    if which == 'read_noise':
                        E('read_noise', ['@IMG', 2.5], {'seed': '@SEEDL'})
                    elif which == 'shot_noise':
                        E('shot_noise', ['@IMGG'], {'method': 'gaussian', 'seed': '@SEEDL'})
                    elif which == 'dark_current':
                        E('dark_current', [40.5], {'shape': [4, 5], 'fpn_factor': 0.2, 'seed': '@SEEDL'})
                    else:
                        E('power_spectrum', ['@MQ'], {'pixelscale': 1e-3, 'rms': 5e-8, 'half_power_freq': 8.0, 'exp': 3.0, 'seed': '@SEEDL'})
                continue
            if r < 0.3:
                method = rng.choice(['poisson', 'gaussian'])
                img = rng.choice(['FLAT', 'IMG', 'IMGL', 'FLATG', 'NEG', 'HUGE', 'HUGE2', 'IMG_F', 'IMG_T', 'NEGT', 'NEGALL', 'ZER', 'HDR', 'HDR']) if method == 'poisson' else \
                    rng.choice(['FLATG', 'IMG', 'FLATG', 'NEG', 'HUGE', 'IMGL', 'HUGE2', 'IMGG', 'FLATG_F', 'IMG_F', 'IMG_T', 'NEGT', 'NEGT', 'NEGALL', 'ZER', 'ZER'])
                E('shot_noise', ['@' + img], {'method': method, 'seed': seed()},
                  t={'distinct_expected': img in ('IMG', 'IMG_F', 'IMG_T')})
                if img in ('IMG', 'IMGG') and rng.random() < 0.5:
                    # the same frame in another memory layout, same seed: same draw
                    twin = {'IMG': rng.choice(['IMG_F', 'IMG_T']), 'IMGG': 'FLATG_F'}[img]
                    d = copy.deepcopy(out[-1])
                    d['a'] = ['@' + twin]
                    d['id'] = d['id'] + 'L'
                    d.setdefault('t', {})['layout_twin'] = True
                    out.append(d)
            elif r < 0.45:
                sig_ = rng.choice([0.4, 1.0, 5.0, 12.5, 0, 0.0])
                E('read_noise', ['@' + rng.choice(['IMG', 'FLAT', 'IMGI']), sig_], {'seed': seed()}, t={'distinct_expected': bool(sig_)})
            elif r < 0.6:
                if rng.random() < 0.2:
                    # a per-pixel rate map the caller keeps and passes again (same seed): the map is an argument, not a work buffer
                    sd_ = seed()
                    for _r in range(2):
                        E('dark_current', ['@RATE'], {'shape': list(world['shapes']['F']), 'fpn_factor': rng.choice([0, 0.2]), 'seed': sd_}, t={'rate_map': True})
                    continue
                k_ = rng.choice([1, 7, 100, 65535])
                edge = [k_ - 1e-9, float(np.nextafter(float(k_), 0.0)), 0.9999999, float(k_), k_ + 1e-9, 987233471889.0, 1e10 + 3.0, 2.0 ** 40 + 1, 0.0, 1e-12]
                E('dark_current', [rng.choice([0.4, 5.7, 100.0, 1234.9]) if rng.random() < 0.5 else rng.choice(edge)],
                  {'shape': rng.choice([[4, 5], [6, 6], [3, 8], {'$tuple': [5, 4]}, 1, 7, [2, 3, 4]]), 'fpn_factor': rng.choice([0, 0, 0.1, 0.3]), 'seed': seed()})
            elif r < 0.7:
                E('rule07_dark_current', [rng.choice([80.0, 120.0, 160.0]), rng.choice([2.5e-6, 5e-6, 10e-6]), rng.choice([10e-6, 18e-6])],
                  {'shape': rng.choice([[4, 5], [6, 6], {'$tuple': [3, 7]}, 1, [2, 3, 3]]), 'fpn_factor': rng.choice([0, 0.2]), 'seed': seed()})
            elif r < 0.85:
                E('power_spectrum', ['@' + rng.choice(['MQ', 'MR', 'MR', 'MQB'])],
                  {'pixelscale': rng.choice([1e-3, 5e-3]), 'rms': rng.choice([1e-8, 5e-8, 2e-7]), 'half_power_freq': rng.choice([2.0, 8.0]),
                   'exp': rng.choice([2.0, 3.0]), 'seed': seed()}, t={'distinct_expected': True})
            else:
                shape = rng.choice([[8, 8], [6, 12], [16, 10]])
                area = shape[0] * shape[1] * 25e-12
                nr = rng.choice([0.5, 1.5, 3.2])
                E('cosmic_rays', [shape, [5e-6, 5e-6, rng.choice([3e-6, 8e-6])], nr / (area * 4e4)], t={'unseeded': True})
        return out

    def generate(self, rng):
        world = {'cache': 32, 'rng_seed': rng.randrange(2 ** 31)}
        big = rng.random() < 1 / 6
        world['big'] = big
        K = rng.randint(2, 4)
        world['K'] = K
        events = self.setup(rng, world, big)
        progs = [self.calls(rng, c, world, rng.randint(3, (9 if not big else 5) * self.depth)) for c in range(K)]
        return {'scenario': self.name, 'world': world, 'events': events + self.interleave(rng, progs)}

    @staticmethod
    def interleave(rng, progs):
        out = []
        pos = [0] * len(progs)
        done = [[] for _ in progs]
        fault_rate = rng.choice([0.1, 0.25, 0.4])
        pending_fault = False
        while True:
            runnable = [c for c in range(len(progs)) if pos[c] < len(progs[c])]
            if not runnable:
                break
            if rng.random() < fault_rate:
                out.append(rng.choice([{'env': 'rng_draw', 'n': rng.randint(1, 9)}, {'env': 'rng_seed', 'seed': rng.randrange(2 ** 31)}]))
                pending_fault = True
                continue
            c = rng.choice(runnable)
            ev = progs[c][pos[c]]
            if pending_fault and ev.get('fn') in SEEDED:
                ev.setdefault('t', {})['after_rng_fault'] = True
            pending_fault = False
            out.append(ev)
            pos[c] += 1
            if ev.get('fn') in SEEDED and rng.random() < 0.2:
                ev.setdefault('t', {})['fresh'] = True
            if ev.get('t', {}).get('twin'):
                pass
            if ev.get('fn') in SEEDED:
                done[c].append(ev)
            if done[c] and rng.random() < 0.15:
                src = rng.choice(done[c])
                if rng.random() < 0.5:
                    # the caller modifies, in place, the frame it was handed (it owns it) before asking again
                    out.append({'env': 'perturb', 'c': c, 'target': '@' + src['id'], 'seed': rng.randrange(10 ** 6)})
                d = copy.deepcopy(src)
                d['id'] = d['id'] + 'd%d' % len(out)
                d.setdefault('t', {})['dup'] = True
                out.append(d)
        return out

    def prelude(self, verif_seed):
        import random
        runs = []
        for j, big in enumerate([True, False]):
            rng = random.Random(verif_seed * 86028121 + j)
            world = {'cache': 32, 'rng_seed': 7, 'big': big, 'K': 1}
            events = self.setup(rng, world, big)
            n = [0]

            def E(fn, a=None, k=None, t=None):
                n[0] += 1
                if fn in SEEDED and n[0] % 3 == 0:
                    t = dict(t or {}, fresh=True)
                e = {'c': 0, 'fn': fn, 'id': 'p%d' % n[0]}
                if a is not None:
                    e['a'] = a
                if k:
                    e['k'] = k
                if t:
                    e['t'] = t
                events.append(e)

            for method in ('poisson', 'gaussian'):
                for img in ('FLATG', 'NEG', 'HUGE', 'IMG'):
                    events.append({'env': 'rng_seed', 'seed': 99})
                    E('shot_noise', ['@' + img], {'method': method, 'seed': 5}, t={'after_rng_fault': True})
                E('shot_noise', ['@FLATG'], {'method': method, 'seed': 5}, t={'dup': True})
                E('shot_noise', ['@FLATG'], {'method': method, 'seed': 6})
            E('shot_noise', ['@FLAT'], {'method': 'poisson', 'seed': 11})
            for method in ('poisson', 'gaussian'):
                E('shot_noise', ['@IMGG'], {'method': method, 'seed': 77})
                E('shot_noise', ['@FLATG_F'], {'method': method, 'seed': 77}, t={'layout_twin': True})
                E('shot_noise', ['@IMG_T'], {'method': method, 'seed': 5}, t={'layout_twin': True})
            E('read_noise', ['@IMG_F', 7.5], {'seed': 3}, t={'layout_twin': True})
            for method in ('poisson', 'gaussian'):
                E('shot_noise', ['@HUGE2'], {'method': method, 'seed': 5})
                for sd_ in (40, 41, 42, 43):
                    E('shot_noise', ['@IMG'], {'method': method, 'seed': sd_}, t={'distinct_expected': True})
            E('read_noise', ['@IMGI', 0.4], {'seed': 8}, t={'distinct_expected': True})
            E('read_noise', ['@IMGI', 1.0], {'seed': 9}, t={'distinct_expected': True})
            E('read_noise', ['@IMG', 7.5], {'seed': 3}, t={'distinct_expected': True})
            E('read_noise', ['@IMG', 7.5], {'seed': 4}, t={'distinct_expected': True})
            E('dark_current', [17.9], {'shape': [5, 7], 'fpn_factor': 0, 'seed': 1})
            if not big:
                E('foreign.seeded', [101 + verif_seed % 11])
                for npix_ in (1, 2, 4):
                    E('series.read_noise', [npix_, 7.5, 1500, 1000 * (verif_seed + 1) + npix_])
            for method in ('gaussian', 'poisson'):
                E('shot_noise', ['@IMGG'], {'method': method, 'seed': 31})
                E('shot_noise', ['@ZER'], {'method': method, 'seed': 31})
            for fpn_ in (0, 0.2):
                for _r in range(2):
                    E('dark_current', ['@RATE'], {'shape': list(world['shapes']['F']), 'fpn_factor': fpn_, 'seed': 4}, t={'rate_map': True})
            E('read_noise', ['@IMG', 0], {'seed': 3})
            events.append({'env': 'perturb', 'c': 0, 'target': '@p%d' % n[0], 'seed': 5})
            E('read_noise', ['@IMG', 0], {'seed': 3}, t={'dup': True})
            E('power_spectrum', ['@MQB'], {'pixelscale': 1e-3, 'rms': 5e-8, 'half_power_freq': 8.0, 'exp': 3.0, 'seed': 21})
            E('dark_current', [40.0], {'shape': [5, 7], 'fpn_factor': 0.1, 'seed': 2})
            E('dark_current', [40.0], {'shape': [5, 7], 'fpn_factor': 0.4, 'seed': 2}, t={'twin': True, 'fresh': True})
            if big:
                # a frame just over 2**20 pixels whose size is not a multiple of it: every pixel gets its noise
                events.append({'c': -1, 'fn': 'array', 'id': 'MEGA', 'recipe': {'kind': 'const', 'shape': [1100, 1000], 'value': 500.0}})
                E('read_noise', ['@MEGA', 7.5], {'seed': 12}, t={'mega': True})
                events.append({'env': 'drop', 'c': 0, 'targets': ['@MEGA', '@p%d' % n[0]]})
            for rate_ in (7 - 1e-9, float(np.nextafter(100.0, 0.0)), 0.9999999, 987233471889.0, 65535.0):
                E('dark_current', [rate_], {'shape': [3, 4], 'fpn_factor': 0, 'seed': 1})
            for method in ('poisson', 'gaussian'):
                E('shot_noise', ['@NEGT'], {'method': method, 'seed': 5})
                E('shot_noise', ['@NEGALL'], {'method': method, 'seed': 5})
            E('dark_current', [17.9], {'shape': [5, 7], 'fpn_factor': 0.3, 'seed': 1})
            events.append({'env': 'perturb', 'target': '@p%d' % n[0], 'seed': 3, 'unshared': True})
            E('dark_current', [17.9], {'shape': [5, 7], 'fpn_factor': 0.3, 'seed': 1}, t={'dup': True})
            for fn_, a_, k_ in (('read_noise', ['@IMG', 3.0], {}), ('shot_noise', ['@IMG'], {'method': 'poisson'}),
                                ('dark_current', [50.0], {'shape': [4, 4], 'fpn_factor': 0.2})):
                E(fn_, a_, dict(k_, seed=0))
                events.append({'env': 'rng_seed', 'seed': 4242})
                E(fn_, a_, dict(k_, seed=0), t={'dup': True, 'after_rng_fault': True})
            E('rule07_dark_current', [120.0, 5e-6, 18e-6], {'shape': [4, 6], 'fpn_factor': 0, 'seed': 1})
            for mk in ('MQ', 'MR'):
                E('power_spectrum', ['@' + mk], {'pixelscale': 1e-3, 'rms': 5e-8, 'half_power_freq': 8.0, 'exp': 3.0, 'seed': 21})
                E('power_spectrum', ['@' + mk], {'pixelscale': 1e-3, 'rms': 5e-8, 'half_power_freq': 8.0, 'exp': 3.0, 'seed': 21 + 2 ** 32},
                  t={'distinct_expected': True, 'wide_seed': True})
            E('read_noise', ['@IMG', 7.5], {'seed': 3 + 2 ** 64}, t={'distinct_expected': True, 'wide_seed': True})
            for s in (1, 2, 3, 4, 5, 6):
                events.append({'env': 'rng_seed', 'seed': s})
                E('cosmic_rays', [[8, 8], [5e-6, 5e-6, 3e-6], 3.2 / (64 * 25e-12 * 4e4)], t={'unseeded': True})
            runs.append({'scenario': self.name, 'world': world, 'events': events, 'run_index': -100 + j, 'seed': 0})
        return runs

    # ---------------------------------------------------------------- execution
    def execute(self, L, run):
        hooks = StochHooks()
        it = Interp(L, run['world'], self.fns, hooks)
        it.run(run['events'])
        extra = []
        callers = callers_of(run['events'])
        # C18.repro across positions in the schedule and across global RNG states: solo (no faults) == interleaved
        if len(callers) > 1 or it.faults.get('rng'):
            inter = {}
            for (i, c, fn, brief) in it.history:
                if fn in SEEDED:
                    inter.setdefault(c, []).append((fn, brief))
            for c in callers:
                solo = Interp(L, dict(run['world'], rng_seed=run['world'].get('rng_seed', 0) + 1), self.fns, None, env_enabled=False)
                solo.run(solo_events(run['events'], c))
                s = [(fn, brief) for (i, cc, fn, brief) in solo.history if cc == c and fn in SEEDED]
                it.probe('check:repro_schedule')
                if s != inter.get(c, []):
                    first = next((a[0] for a, b in zip(s, inter.get(c, [])) if a != b), 'length')
                    extra.append(Violation('C18.repro', {'fn': first, 'what': 'schedule-or-global-state'},
                                           'caller %d: a seeded %s returned a different frame when interleaved with other callers and '
                                           'global-RNG perturbations than when run alone' % (c, first)).to_json())
            if len(callers) > 1:
                it.fault('interleave')
        states = set()
        for (i, c, fn, brief) in it.history:
            states.add('%s>%s' % (fn, brief.split(':')[0] if brief.startswith('ok') else brief))
        for ev in run['events']:
            if ev.get('fn') in SEEDED:
                k = ev.get('k', {})
                states.add('%s|%s|fpn%s|seed%s' % (ev['fn'], k.get('method'), bool(k.get('fpn_factor')), type(k.get('seed')).__name__))
        return self.result(it, extra, states)
