"""Pristine-process evaluator for the `C10.fresh` oracle.

"A result depends only on the current arguments" -- checked literally: the same call is issued
on public-state clones of its arguments (lsim/public.py) in a process that has imported lentil
but has never executed anything, and the outcome must equal the one observed in the history.

Mechanics.  `start()` is called by every worker process before it executes its first run, i.e.
while the process is still pristine.  It forks a *helper* that blocks on a pipe and never calls
lentil itself.  For every request the helper forks a *grandchild*, which builds the arguments,
calls the function, describes the outcome and exits; the helper relays the answer.  Every
evaluation therefore starts from the same pristine process image, whatever the history of the
requesting process.  Nothing here draws random numbers or reads a clock; an evaluation is a pure
function of the request and the code, so replays are exact.
"""
import os
import pickle
import struct
import warnings

import numpy as np

from . import public

_server = None


def _send(fd, obj):
    data = pickle.dumps(obj, protocol=pickle.HIGHEST_PROTOCOL)
    os.write(fd, struct.pack('<Q', len(data)))
    off = 0
    while off < len(data):
        off += os.write(fd, data[off:off + (1 << 20)])


def _read_exact(fd, n):
    buf = bytearray()
    while len(buf) < n:
        chunk = os.read(fd, min(n - len(buf), 1 << 20))
        if not chunk:
            raise EOFError
        buf += chunk
    return bytes(buf)


def _recv(fd):
    n = struct.unpack('<Q', _read_exact(fd, 8))[0]
    return pickle.loads(_read_exact(fd, n))


def evaluate(L, fns, req):
    """Executed in a pristine grandchild.  req = (fn name, described args, described kwargs)."""
    fn, dargs, dkw = req
    try:
        args = [public.build(L, d) for d in dargs]
        kw = {k: public.build(L, d) for k, d in dkw}
        # the clones must be faithful: their public state equals the description they were built from
        for d, o in list(zip(dargs, args)) + [(d, kw[k]) for k, d in dkw]:
            bad = public.same(public.describe(L, o), d)
            if bad:
                return ('unfaithful', bad)
    except public.Unsupported as e:
        return ('unsupported', str(e))
    except Exception as e:
        return ('unfaithful', 'clone could not be built: %r' % (e,))
    np.random.seed(987654321)
    with warnings.catch_warnings():
        warnings.simplefilter('ignore')
        with np.errstate(all='ignore'):
            try:
                val = fns[fn](L, *args, **dict(kw))
            except MemoryError:
                return ('unsupported', 'MemoryError')
            except Exception as e:
                return ('exc', type(e).__name__)
    try:
        return ('ok', public.describe(L, val))
    except public.Unsupported as e:
        return ('unsupported', str(e))


class FreshServer:
    def __init__(self, L, fns):
        self.pid = os.getpid()
        req_r, req_w = os.pipe()
        ans_r, ans_w = os.pipe()
        helper = os.fork()
        if helper == 0:
            try:
                keep = {req_r, ans_w, 0, 1, 2}
                for name in os.listdir('/proc/self/fd'):
                    try:
                        fd = int(name)
                    except ValueError:
                        continue
                    if fd not in keep:
                        try:
                            os.close(fd)
                        except OSError:
                            pass
                self._helper_loop(L, fns, req_r, ans_w)
            finally:
                os._exit(0)
        os.close(req_r)
        os.close(ans_w)
        self.req_w = req_w
        self.ans_r = ans_r
        self.helper = helper
        self.requests = 0

    @staticmethod
    def _helper_loop(L, fns, req_r, ans_w):
        while True:
            try:
                req = _recv(req_r)
            except (EOFError, OSError):
                return
            r, w = os.pipe()
            pid = os.fork()
            if pid == 0:
                try:
                    os.close(r)
                    try:
                        import resource
                        lim = 4 << 30
                        resource.setrlimit(resource.RLIMIT_AS, (lim, lim))
                        import signal
                        signal.signal(signal.SIGALRM, signal.SIG_DFL)
                        signal.alarm(120)           # (faulthandler's watchdog thread does not survive fork: not usable here)
                    except Exception:
                        pass
                    try:
                        ans = evaluate(L, fns, req)
                    except BaseException as e:      # noqa
                        ans = ('unsupported', 'evaluator failed: %r' % (e,))
                    _send(w, ans)
                finally:
                    os._exit(0)
            os.close(w)
            try:
                ans = _recv(r)
            except (EOFError, OSError):
                ans = ('unsupported', 'evaluator died')
            os.close(r)
            try:
                os.waitpid(pid, 0)
            except OSError:
                pass
            try:
                _send(ans_w, ans)
            except OSError:
                return

    def ask(self, fn, dargs, dkw):
        if os.getpid() != self.pid:
            raise RuntimeError('FreshServer used from a process that did not create it')
        self.requests += 1
        _send(self.req_w, (fn, dargs, dkw))
        return _recv(self.ans_r)

    def close(self):
        for fd in (self.req_w, self.ans_r):
            try:
                os.close(fd)
            except OSError:
                pass
        try:
            os.waitpid(self.helper, 0)
        except OSError:
            pass


def start(L, fns):
    """Create this process's evaluator.  Must be called while the process is pristine (before any run)."""
    global _server
    if _server is not None and _server.pid == os.getpid():
        return _server
    _server = FreshServer(L, fns)
    return _server


def get():
    if _server is not None and _server.pid == os.getpid():
        return _server
    return None


# --------------------------------------------------------------------------- oracle helpers (used by scenario hooks)

def describe_call(it, ev):
    """Public-state description of a call's arguments as they are now (taken BEFORE the call).  None when unsupported."""
    try:
        dargs = [public.describe(it.L, it.resolve(x)) for x in ev.get('a', [])]
        dkw = [(k, public.describe(it.L, it.resolve(x))) for k, x in sorted(ev.get('k', {}).items())]
        return dargs, dkw
    except public.Unsupported:
        it.probe('fresh_unsupported')
        return None


def judge(it, i, ev, out, pending, oracle, sig):
    """The same call on public-state clones of its arguments, in a process that has executed nothing else, must give the outcome
    seen in this history."""
    from .core import HarnessError
    dargs, dkw = pending
    fn = ev['fn']
    if not out.ok and ('read-only' in str(out.exc) or isinstance(out.exc, MemoryError)):
        return
    srv = get()
    if srv is None:
        raise HarnessError('run asks for the pristine-process oracle but this process has no evaluator')
    try:
        mine = ('ok', public.describe(it.L, out.value)) if out.ok else ('exc', type(out.exc).__name__)
    except public.Unsupported:
        it.probe('fresh_unsupported')
        return
    ans = srv.ask(fn, dargs, dkw)
    if ans[0] in ('unsupported', 'unfaithful'):
        it.probe('fresh_' + ans[0])
        return
    it.probe('check:fresh')
    it.fault('fresh_process')
    if ans[0] != mine[0] or (ans[0] == 'exc' and ans[1] != mine[1]):
        show = lambda a: a[0] + (':' + a[1] if a[0] == 'exc' else '')
        it.violate(oracle, sig, '%s: %s in this history, %s on clones of the same arguments in a pristine process' % (fn, show(mine), show(ans)), i)
    elif ans[0] == 'ok':
        bad = public.same(mine[1], ans[1])
        if bad:
            it.violate(oracle, sig, '%s: the result in this history differs from the result of the same call on clones of the same '
                       'arguments in a pristine process (%s)' % (fn, bad), i)
