"""Entry point:  main.py <Cxx> quick|thorough   |   main.py <Cxx> --replay FILE   |   main.py selftest-...

Re-executes itself once with the nondeterminism of the host pinned (hash seed, BLAS threads).
"""
import os
import sys

PIN = {'PYTHONHASHSEED': '0', 'OPENBLAS_NUM_THREADS': '1', 'OMP_NUM_THREADS': '1', 'MKL_NUM_THREADS': '1',
       'PYTHONDONTWRITEBYTECODE': '1'}


def pinned():
    if os.environ.get('LSIM_PINNED') == '1':
        return True
    return False


def main(argv):
    here = os.path.dirname(os.path.dirname(os.path.abspath(__file__)))
    if not pinned():
        env = dict(os.environ)
        for k, v in PIN.items():
            if k == 'PYTHONHASHSEED' and 'LSIM_HASHSEED' in env:
                v = env['LSIM_HASHSEED']
            env[k] = v
        env['LSIM_PINNED'] = '1'
        os.execve(sys.executable, [sys.executable, os.path.abspath(__file__)] + argv, env)
    if here not in sys.path:
        sys.path.insert(0, here)
    # the script's own directory (/verif/lsim) must not shadow packages
    sys.path[:] = [p for p in sys.path if os.path.abspath(p or '.') != os.path.join(here, 'lsim')]
    from lsim import runner
    from lsim.core import HarnessError
    if not argv:
        print(__doc__)
        return 2
    if argv[0].startswith('selftest'):
        from lsim import selftest
        return selftest.main(argv)
    prop = argv[0]
    try:
        if '--replay' in argv:
            path = argv[argv.index('--replay') + 1]
            ok, viol = runner.replay_file(prop, path)
            if ok:
                print('VIOLATION property=%s replay=%s' % (prop, os.path.abspath(path)))
                if '--quiet' not in argv:
                    for v in viol:
                        print('  oracle=%s sig=%s' % (v['oracle'], v['sig']))
                        print('  detail: %s' % v['detail'])
                return 1
            print('replay %s: recorded violation did not fire (%d other violations)' % (path, len(viol)))
            if '--quiet' not in argv:
                for v in viol:
                    print('  oracle=%s sig=%s' % (v['oracle'], v['sig']))
            return 0
        tier = argv[1] if len(argv) > 1 else 'quick'
        if tier not in ('quick', 'thorough'):
            print('HARNESS-ERROR unknown tier %r' % tier)
            return 2
        return runner.run_check(prop, tier)
    except HarnessError as e:
        print('HARNESS-ERROR property=%s %s' % (prop, e))
        return 2


if __name__ == '__main__':
    sys.exit(main(sys.argv[1:]))
