"""Core of the simulator: seeds, digests, array recipes, the store and the interpreter.

One *run* is a JSON-able dict ``{"scenario", "world", "events"}``.  ``events`` is a fully
concrete list: caller operations (``{"c": caller, "fn": name, "a": [...], "k": {...},
"id": "x"}``) and environment events (``{"env": kind, ...}``) in the order in which the
seeded scheduler interleaved them.  Executing a run consults no PRNG and no clock, so a
run *is* its own replay file.
"""
import hashlib
import struct
import sys
import warnings
from fractions import Fraction

import numpy as np


# --------------------------------------------------------------------------- seeds

def derive_seed(*parts):
    h = hashlib.sha256(':'.join(str(p) for p in parts).encode()).digest()
    return int.from_bytes(h[:8], 'big')


# --------------------------------------------------------------------------- digests

class Digester:
    """Byte digest of the *public* state of lentil objects and plain data.

    Only attributes a caller can read through the documented API are hashed (soundness
    rule 1 of DESIGN.md section 4): a private memo added by a refactor changes nothing.
    """

    def __init__(self, L):
        self.L = L
        self.PType = type(L.none)     # ``lentil.ptype`` the module is shadowed by the function

    def __call__(self, obj):
        h = hashlib.sha1()
        self._feed(h, obj, 0)
        return h.hexdigest()[:16]

    @staticmethod
    def _g(f):
        """An attribute read that cannot kill the digest: under a broken tree an attribute may hold anything, or raise.  What cannot be
        read or converted is digested as a marker, so the state still has a deterministic description the oracles can compare."""
        try:
            return f()
        except Exception as e:      # noqa
            return ('<unreadable>', type(e).__name__)

    def _feed(self, h, o, depth):
        L = self.L
        g = self._g
        if depth > 12:
            h.update(b'<deep>')
            return
        if o is None:
            h.update(b'N')
        elif isinstance(o, (bool, np.bool_)):
            h.update(b'b1' if o else b'b0')
        elif isinstance(o, (int, np.integer)):
            h.update(b'i' + str(int(o)).encode())
        elif isinstance(o, (float, np.floating)):
            h.update(b'f' + struct.pack('<d', float(o)))
        elif isinstance(o, (complex, np.complexfloating)):
            h.update(b'c' + struct.pack('<dd', complex(o).real, complex(o).imag))
        elif isinstance(o, str):
            h.update(b's' + o.encode())
        elif isinstance(o, bytes):
            h.update(b'y' + o)
        elif isinstance(o, np.ndarray):
            h.update(b'A' + str(o.dtype).encode() + str(o.shape).encode())
            if o.dtype == object:
                for x in o.ravel():
                    self._feed(h, x, depth + 1)
            else:
                h.update(np.ascontiguousarray(o).tobytes())
        elif isinstance(o, (list, tuple)):
            h.update(b'L' if isinstance(o, list) else b'T')
            h.update(str(len(o)).encode())
            for x in o:
                self._feed(h, x, depth + 1)
        elif isinstance(o, dict):
            h.update(b'D')
            for k in sorted(o, key=str):
                self._feed(h, str(k), depth + 1)
                self._feed(h, o[k], depth + 1)
        elif isinstance(o, slice):
            h.update(b'S')
            self._feed(h, (o.start, o.stop, o.step), depth + 1)
        elif o is Ellipsis:
            h.update(b'E')
        elif isinstance(o, self.PType):
            h.update(b'P' + str(o).encode())
        elif isinstance(o, L.field.Field):
            h.update(b'Fd')
            self._feed(h, g(lambda: o.data), depth + 1)
            self._feed(h, g(lambda: [int(x) for x in o.offset]), depth + 1)
            self._feed(h, g(lambda: None if o.pixelscale is None else np.asarray(o.pixelscale, dtype=float)), depth + 1)
            self._feed(h, g(lambda: list(o.tilt)), depth + 1)
        elif isinstance(o, L.Wavefront):
            h.update(b'W')
            self._feed(h, g(lambda: float(o.wavelength)), depth + 1)
            self._feed(h, g(lambda: None if o.pixelscale is None else np.asarray(o.pixelscale, dtype=float)), depth + 1)
            self._feed(h, g(lambda: float(o.focal_length)), depth + 1)
            self._feed(h, g(lambda: o.ptype), depth + 1)
            self._feed(h, g(lambda: tuple(int(x) for x in o.shape)), depth + 1)
            self._feed(h, g(lambda: o.diameter), depth + 1)
            self._feed(h, g(lambda: list(o.data)), depth + 1)
        elif isinstance(o, L.Plane):
            h.update(b'Pl' + type(o).__name__.encode())
            self._feed(h, g(lambda: o.amplitude), depth + 1)
            self._feed(h, g(lambda: o.opd), depth + 1)
            self._feed(h, g(lambda: o.mask), depth + 1)
            self._feed(h, g(lambda: None if o.pixelscale is None else np.asarray(o.pixelscale, dtype=float)), depth + 1)
            self._feed(h, g(lambda: o.ptype), depth + 1)
            if depth < 6:
                self._feed(h, g(lambda: list(o.tilt)), depth + 1)
            for name in ('focal_length', 'x', 'y', 'trace', 'dispersion', 'angle', 'order', 'axis'):
                # public attributes of the subclasses, however they are stored (instance dict or property)
                if name in getattr(o, '__dict__', {}) or isinstance(getattr(type(o), name, None), property):
                    self._feed(h, name, depth + 1)
                    self._feed(h, g(lambda: getattr(o, name)), depth + 1)
            if '_diameter' in getattr(o, '__dict__', {}):
                self._feed(h, '_diameter', depth + 1)
                self._feed(h, o.__dict__['_diameter'], depth + 1)
        elif isinstance(o, L.radiometry.Spectrum):
            h.update(b'Sp' + type(o).__name__.encode())
            self._feed(h, g(lambda: o.wave), depth + 1)
            self._feed(h, g(lambda: o.value), depth + 1)
            self._feed(h, g(lambda: o.waveunit), depth + 1)
            self._feed(h, g(lambda: o.valueunit), depth + 1)
            if 'temp' in o.__dict__:
                self._feed(h, o.__dict__['temp'], depth + 1)
        elif isinstance(o, L.radiometry.Material):
            h.update(b'Mt')
            self._feed(h, g(lambda: o.transmission), depth + 1)
            self._feed(h, g(lambda: o.emission), depth + 1)
            self._feed(h, g(lambda: o.contam), depth + 1)
        elif isinstance(o, BaseException):
            h.update(b'X' + type(o).__name__.encode())
        elif isinstance(o, Fraction):
            h.update(b'Q' + str(o).encode())
        elif callable(o):
            h.update(b'fn' + getattr(o, '__qualname__', repr(type(o))).encode())
        else:
            h.update(b'O' + type(o).__name__.encode())
            d = getattr(o, '__dict__', None)
            if d is not None:
                self._feed(h, d, depth + 1)


# --------------------------------------------------------------------------- array recipes

def resolve_shape(shape, shapes):
    if isinstance(shape, str):
        return tuple(int(x) for x in shapes[shape])
    return tuple(int(x) for x in shape)


def make_array(recipe, shapes):
    """Build an ndarray from a JSON recipe.  Contents come from a PCG64 stream keyed by
    ``recipe['seed']`` only, so a recipe is reproducible by itself."""
    kind = recipe['kind']
    shape = resolve_shape(recipe.get('shape', ()), shapes)
    seed = int(recipe.get('seed', 0))
    g = np.random.Generator(np.random.PCG64(seed))
    if kind == 'uniform':
        a = g.uniform(recipe.get('lo', 0.0), recipe.get('hi', 1.0), size=shape)
    elif kind == 'normal':
        a = g.normal(recipe.get('mu', 0.0), recipe.get('sigma', 1.0), size=shape)
    elif kind == 'complex':
        a = g.normal(size=shape) + 1j * g.normal(size=shape)
    elif kind == 'const':
        a = np.full(shape, recipe.get('value', 1.0), dtype=float)
    elif kind == 'ones':
        a = np.ones(shape)
    elif kind == 'zeros':
        a = np.zeros(shape)
    elif kind == 'nan':
        a = np.full(shape, np.nan)
    elif kind == 'ramp':
        # c0 + a*r + b*c with r, c measured from index floor(n/2)
        r = np.arange(shape[0]) - shape[0] // 2
        c = np.arange(shape[1]) - shape[1] // 2
        a = recipe.get('c0', 0.0) + recipe.get('a', 0.0) * r[:, None] + recipe.get('b', 0.0) * c[None, :]
    elif kind == 'spike':
        a = np.zeros(shape)
        pos = recipe.get('pos')
        if pos is None:
            pos = [s // 2 for s in shape]
        a[tuple(int(min(p, s - 1)) for p, s in zip(pos, shape))] = recipe.get('value', 1.0)
    elif kind == 'poisson_mean':
        a = g.uniform(recipe.get('lo', 0.0), recipe.get('hi', 100.0), size=shape)
    elif kind == 'integers':
        a = g.integers(recipe.get('lo', 0), recipe.get('hi', 10), size=shape).astype(float)
    elif kind in ('disk', 'disk_aa', 'rect', 'blob', 'segments', 'segments_flat'):
        a = _mask_array(kind, recipe, shape, g)
    elif kind == 'list':
        a = np.array(recipe['values'], dtype=float)
    elif kind == 'mul':
        a = make_array(recipe['x'], shapes) * make_array(recipe['y'], shapes)
    elif kind == 'add':
        a = make_array(recipe['x'], shapes) + make_array(recipe['y'], shapes)
    elif kind == 'set':
        # a base array with individual pixels assigned: [[row, col, value], ...] (indices clipped to the shape)
        a = np.array(make_array(recipe['x'], shapes), dtype=float)
        for r_, c_, v_ in recipe['pixels']:
            a[min(int(r_), a.shape[0] - 1), min(int(c_), a.shape[1] - 1)] = v_
    else:
        raise ValueError('unknown array recipe kind %r' % kind)
    dt = recipe.get('dtype')
    if dt:
        a = a.astype(dt)
    layout = recipe.get('layout', 'C')
    if layout == 'F':
        a = np.asfortranarray(a)
    elif layout == 'strided' and a.ndim >= 1 and a.size > 0:
        big = np.zeros(tuple(2 * s for s in a.shape), dtype=a.dtype)
        view = big[tuple(slice(None, None, 2) for _ in a.shape)]
        view[...] = a
        a = view
    return a


def _support_mask(recipe, shape, g):
    """2-D boolean support.  Non-empty, with >= 3 non-collinear pixels when possible."""
    nr, nc = shape
    r = np.arange(nr)[:, None] - nr // 2 - recipe.get('dr', 0)
    c = np.arange(nc)[None, :] - nc // 2 - recipe.get('dc', 0)
    sup = recipe.get('support', 'disk')
    if sup == 'disk':
        rad = recipe.get('radius', min(nr, nc) / 2.0)
        m = (r * r + c * c) <= rad * rad
    elif sup == 'rect':
        hr, hc = recipe.get('half', [nr // 2, nc // 2])
        m = (np.abs(r) <= hr) & (np.abs(c) <= hc)
    elif sup == 'full':
        m = np.ones(shape, dtype=bool)
    elif sup == 'blob':
        m = g.uniform(size=shape) < recipe.get('p', 0.6)
    else:
        raise ValueError(sup)
    if not m.any():
        m[nr // 2, nc // 2] = True
    if not well_posed(m) and not recipe.get('degenerate_ok'):
        # soundness rule 4: >= 3 non-collinear pixels whenever the array allows it
        # (recipes used where no tilt is ever fitted may ask for slits and single rows: 'degenerate_ok')
        m = np.ones(shape, dtype=bool)
    return m


def well_posed(m):
    """True when the support has at least 3 non-collinear pixels (tilt fit is full rank)."""
    rr, cc = np.nonzero(m)
    if rr.size < 3:
        return False
    B = np.stack([np.ones(rr.size), rr - rr.mean(), cc - cc.mean()], axis=1)
    return int(np.linalg.matrix_rank(B)) == 3


def _mask_array(kind, recipe, shape, g):
    if kind in ('segments', 'segments_flat'):
        shape2 = shape[-2:]
        k = int(recipe.get('k', 2))
        sup = _support_mask(recipe, shape2, g)
        # Voronoi labels around k seeded sites -> bounding boxes overlap
        sites_r = g.uniform(0, shape2[0], size=k)
        sites_c = g.uniform(0, shape2[1], size=k)
        rr, cc = np.mgrid[0:shape2[0], 0:shape2[1]]
        d = np.stack([(rr - sr) ** 2 + (cc - sc) ** 2 for sr, sc in zip(sites_r, sites_c)])
        lab = np.argmin(d, axis=0)
        segs = [(sup & (lab == i)) for i in range(k)]
        good = [s for s in segs if well_posed(s)]
        bad = [s for s in segs if s.any() and not well_posed(s)]
        if good:
            for b in bad:          # fold degenerate slivers into the first good segment
                good[0] = good[0] | b
            segs = good
        else:
            segs = [sup]
        if kind == 'segments_flat':
            return np.sum(segs, axis=0).astype(float)
        return np.array(segs).astype(float)
    if kind == 'disk':
        return _support_mask(dict(recipe, support='disk'), shape, g).astype(float)
    if kind == 'rect':
        return _support_mask(dict(recipe, support='rect'), shape, g).astype(float)
    if kind == 'blob':
        return _support_mask(dict(recipe, support='blob'), shape, g).astype(float)
    if kind == 'disk_aa':
        # antialiased disk: values in (0, 1) on the rim (a mask a caller may well hand over)
        nr, nc = shape
        r = np.arange(nr)[:, None] - nr // 2 - recipe.get('dr', 0)
        c = np.arange(nc)[None, :] - nc // 2 - recipe.get('dc', 0)
        rad = recipe.get('radius', min(nr, nc) / 2.0)
        d = np.sqrt(r * r + c * c)
        a = np.clip(rad + 0.5 - d, 0, 1)
        if not a.any():
            a[nr // 2, nc // 2] = 0.5
        return a
    raise ValueError(kind)


# --------------------------------------------------------------------------- literals

def decode(v):
    """JSON literal -> python value (handles the few non-JSON things the API takes)."""
    if isinstance(v, dict):
        if '$inf' in v:
            return float('inf') * (1 if v['$inf'] >= 0 else -1)
        if '$nan' in v:
            return float('nan')
        if '$tuple' in v:
            return tuple(decode(x) for x in v['$tuple'])
        if '$complex' in v:
            return complex(v['$complex'][0], v['$complex'][1])
        if '$nd' in v:
            return np.array(v['$nd'], dtype=v.get('dtype', float))
        if '$frac' in v:
            return float(Fraction(v['$frac'][0]) / Fraction(v['$frac'][1]))
        return {k: decode(x) for k, x in v.items()}
    if isinstance(v, list):
        return [decode(x) for x in v]
    return v


# --------------------------------------------------------------------------- violations

class Violation:
    __slots__ = ('oracle', 'sig', 'detail', 'step')

    def __init__(self, oracle, sig, detail='', step=None):
        self.oracle = oracle
        self.sig = dict(sig)
        self.detail = str(detail)[:600]
        self.step = step

    def key(self):
        return vkey(self.oracle, self.sig)

    def to_json(self):
        return {'oracle': self.oracle, 'sig': self.sig, 'detail': self.detail, 'step': self.step}


def vkey(oracle, sig):
    import json
    return oracle + '|' + json.dumps(sig, sort_keys=True, separators=(',', ':'))


class HarnessError(Exception):
    """The machinery (not lentil) failed."""


# --------------------------------------------------------------------------- interpreter

def process_policy():
    """Process-wide settings a library call has no business changing (numpy's floating-point error policy and print options, the
    warnings filters, the recursion limit, the environment).  Read INSIDE the harness's own errstate / catch_warnings blocks, whose
    exit would otherwise silently undo a leak."""
    import os
    import sys
    return (tuple(sorted(np.geterr().items())), repr(sorted((k, repr(v)) for k, v in np.get_printoptions().items())),
            len(warnings.filters), repr(warnings.filters[:3]), sys.getrecursionlimit(), hash(frozenset(os.environ.items())))


class Outcome:
    __slots__ = ('ok', 'value', 'exc', 'warnings', 'policy_changed')

    def __init__(self, ok, value=None, exc=None, warns=()):
        self.ok = ok
        self.value = value
        self.exc = exc
        self.warnings = warns
        self.policy_changed = None

    def brief(self, dig):
        if self.ok:
            return 'ok:' + dig(self.value)
        return 'exc:' + type(self.exc).__name__


class Interp:
    """Executes an event list against the real lentil.

    The interpreter owns the three things DESIGN.md section 2 says the simulator must own:
    the store of caller objects, the DFT coordinate cache (G1) and numpy's global RNG (G2).
    """

    def __init__(self, L, world, fns, hooks=None, env_enabled=True):
        self.L = L
        self.world = world
        self.shapes = world.get('shapes', {})
        self.fns = fns
        self.hooks = hooks
        self.env_enabled = env_enabled
        self.dig = Digester(L)
        self.store = {}
        self.meta = {}          # id -> dict (creation event index, owner, kind ...)
        self.history = []       # (index, caller, fn, brief outcome)
        self.violations = []
        self.probes = {}
        self.faults = {}
        self.steps = 0
        self.skipped = 0
        self.frozen = {}        # id -> ndarray made read-only
        self.reset_globals(world)

    # ---- global state owned by the simulator
    def reset_globals(self, world):
        L = self.L
        size = world.get('cache', 32)
        wrapped = getattr(L.fourier, '_dft2_coords', None)      # absent in a tree that builds its coordinates another way: knob is a no-op
        wrapped = getattr(wrapped, '__wrapped__', wrapped)
        self._coords_wrapped = wrapped
        self.set_cache(size)
        np.random.seed(int(world.get('rng_seed', 0)) % (2 ** 32))
        warnings.resetwarnings()

    def set_cache(self, size):
        import functools
        if self._coords_wrapped is None:
            return
        if size is None or size < 0:
            self.L.fourier._dft2_coords = self._coords_wrapped
        else:
            self.L.fourier._dft2_coords = functools.lru_cache(maxsize=size)(self._coords_wrapped)

    def cache_info(self):
        f = getattr(self.L.fourier, '_dft2_coords', None)
        return f.cache_info() if hasattr(f, 'cache_info') else None

    # ---- bookkeeping
    def probe(self, name, n=1):
        self.probes[name] = self.probes.get(name, 0) + n

    def fault(self, name, n=1):
        self.faults[name] = self.faults.get(name, 0) + n

    def violate(self, oracle, sig, detail='', step=None):
        self.violations.append(Violation(oracle, sig, detail, step))

    # ---- references
    def resolve(self, v):
        if isinstance(v, str) and v.startswith('@'):
            return self.store[v[1:]]
        if isinstance(v, list):
            return [self.resolve(x) for x in v]
        if isinstance(v, dict):
            if '$ptype' in v:
                return self.L.ptype(v['$ptype'])         # a plane-type OBJECT (lentil.none, lentil.pupil, ...), not its name
            if '$tuple' in v:
                return tuple(self.resolve(x) for x in v['$tuple'])
            if any(k.startswith('$') for k in v):
                return decode(v)
            return {k: self.resolve(x) for k, x in v.items()}
        return v

    def refs(self, v, out=None):
        out = [] if out is None else out
        if isinstance(v, str) and v.startswith('@'):
            out.append(v[1:])
        elif isinstance(v, list):
            for x in v:
                self.refs(x, out)
        elif isinstance(v, dict):
            for x in v.values():
                self.refs(x, out)
        return out

    def event_refs(self, ev):
        r = self.refs(ev.get('a', []))
        self.refs(ev.get('k', {}), r)
        self.refs(ev.get('targets', []), r)
        if 'target' in ev:
            self.refs(ev['target'], r)
        return r

    # ---- execution
    def run(self, events):
        for i, ev in enumerate(events):
            if 'env' in ev:
                # environment faults can be switched off (solo passes); a caller's own writes into arrays it owns are part of
                # its program and always happen
                if self.env_enabled or (ev.get('c') is not None and ev['env'] in ('poke', 'perturb', 'perturb_attr', 'drop')):
                    self.do_env(i, ev)
                continue
            if any(r not in self.store for r in self.event_refs(ev)):
                self.skipped += 1
                continue
            self.step(i, ev)
        if self.hooks is not None:
            self.hooks.finish(self)
        return self

    def call(self, ev):
        """Execute one caller operation; returns an Outcome (never raises lentil errors)."""
        if ev['fn'] == 'array':
            try:
                return Outcome(True, make_array(ev['recipe'], self.shapes))
            except Exception as e:  # a recipe that cannot be built is a harness problem
                raise HarnessError('array recipe failed: %r: %r' % (ev['recipe'], e))
        fn = self.fns[ev['fn']]
        args = [self.resolve(x) for x in ev.get('a', [])]
        kw = {k: self.resolve(x) for k, x in ev.get('k', {}).items()}
        with warnings.catch_warnings(record=True) as wl:
            warnings.simplefilter('always')
            with np.errstate(all='ignore'):
                pol0 = process_policy()
                nmod0 = len(sys.modules)
                try:
                    val = fn(self.L, *args, **kw)
                    out = Outcome(True, val, None, tuple(type(w.message).__name__ for w in wl))
                except HarnessError:
                    raise
                except Exception as e:
                    out = Outcome(False, None, e, tuple(type(w.message).__name__ for w in wl))
                pol1 = process_policy()
                if pol1 != pol0:
                    changed = [n for n, a, b in zip(('numpy error policy', 'numpy print options', 'warnings filters', 'warnings filters',
                                                     'recursion limit', 'environment'), pol0, pol1) if a != b]
                    if nmod0 != len(sys.modules):
                        # a module imported lazily during the call may register warnings filters of its own at import time: that is
                        # the interpreter's one-off business, not state the call leaves behind
                        changed = [n for n in changed if n != 'warnings filters']
                    if changed:
                        out.policy_changed = changed[0]
                return out

    def step(self, i, ev):
        if self.hooks is not None:
            if self.hooks.before(self, i, ev) is False:     # premise gate: the step is not executed
                self.skipped += 1
                return None
        self.steps += 1
        out = self.call(ev)
        if out.ok and ev.get('id'):
            self.store[ev['id']] = out.value
            self.meta[ev['id']] = {'at': i, 'c': ev.get('c', 0), 'fn': ev['fn'], 'kw': sorted(ev.get('k', {}))}
        self.history.append((i, ev.get('c', 0), ev['fn'], out.brief(self.dig)))
        if self.hooks is not None:
            try:
                self.hooks.after(self, i, ev, out)
            except (HarnessError, MemoryError):
                raise
            except Exception as e:
                # an oracle that cannot even be evaluated on what lentil returned (wrong type, shape, object array ...):
                # reported like any violation, so that it is minimised and must replay, instead of breaking the check
                import traceback
                tb = traceback.extract_tb(e.__traceback__)[-1]
                self.violate(getattr(self.hooks, 'prefix', 'LSIM') + '.oracle_error', {'fn': ev['fn'], 'exc': type(e).__name__},
                             'the oracle could not be evaluated after %s: %r (%s:%d)' % (ev['fn'], e, tb.filename.split('/')[-1], tb.lineno), i)
        return out

    def do_env(self, i, ev):
        kind = ev['env']
        if kind == 'cache':
            self.set_cache(ev['maxsize'])
            self.fault('cache')
        elif kind == 'cache_clear':
            f = getattr(self.L.fourier, '_dft2_coords', None)
            if hasattr(f, 'cache_clear'):
                f.cache_clear()
            self.fault('cache')
        elif kind == 'rng_draw':
            np.random.random_sample(int(ev['n']))
            self.fault('rng')
        elif kind == 'rng_seed':
            np.random.seed(int(ev['seed']) % (2 ** 32))
            self.fault('rng')
        elif kind == 'dirty':
            tid = ev['target'].lstrip('@')
            if tid in self.store and isinstance(self.store[tid], np.ndarray):
                dirty_fill(self.store[tid], ev.get('fill', 'nan'), ev.get('seed', 0))
                self.fault('dirty')
                if self.hooks is not None and hasattr(self.hooks, 'on_dirty'):
                    self.hooks.on_dirty(self, tid)
        elif kind == 'perturb':
            tid = ev['target'].lstrip('@')
            a = self.store.get(tid)
            if ev.get('unshared') and isinstance(a, np.ndarray) and self._shared(tid, a):
                self.probe('perturb_skipped_shared')
            elif isinstance(a, np.ndarray) and a.flags.writeable and a.size and a.dtype.kind in 'fc':
                g = np.random.Generator(np.random.PCG64(int(ev.get('seed', 0))))
                scale = ev.get('scale')
                if scale is None:
                    scale = 0.37 * (float(np.max(np.abs(a))) or 1.0)
                a[...] = a + scale * g.normal(size=a.shape)
                self.fault('caller_write')
                if self.hooks is not None and hasattr(self.hooks, 'on_dirty'):
                    self.hooks.on_dirty(self, tid)
        elif kind == 'perturb_attr':
            # the caller writes, in place, into an array one of its objects hands out (r.wave *= 1.05, r.value[...] = ...)
            obj = self.store.get(ev['target'].lstrip('@'))
            a = getattr(obj, ev['attr'], None) if obj is not None else None
            if ev.get('unshared') and isinstance(a, np.ndarray) and self._shared(ev['target'].lstrip('@'), a):
                self.probe('perturb_skipped_shared')        # the array is (also) somebody else's: not this caller's to scribble on
            elif isinstance(a, np.ndarray) and a.flags.writeable and a.size and a.dtype.kind == 'f':
                if ev.get('how', 'scale') == 'scale':
                    a *= ev.get('by', 1.05)             # keeps a wavelength grid positive and increasing
                else:
                    g = np.random.Generator(np.random.PCG64(int(ev.get('seed', 0))))
                    a[...] = a + 0.37 * (float(np.max(np.abs(a))) or 1.0) * g.uniform(0.1, 1.0, size=a.shape)
                self.fault('caller_write')
                if self.hooks is not None and hasattr(self.hooks, 'on_dirty'):
                    self.hooks.on_dirty(self, ev['target'].lstrip('@'))
        elif kind == 'drop':
            # the caller lets go of objects it held (their memory, and their id(), may be reused by whatever is allocated next)
            for t in ev['targets']:
                self.store.pop(t.lstrip('@'), None)
                self.meta.pop(t.lstrip('@'), None)
            if self.hooks is not None and hasattr(self.hooks, 'on_drop'):
                self.hooks.on_drop(self, [t.lstrip('@') for t in ev['targets']])
            import gc
            gc.collect()
        elif kind == 'poke':
            # the caller assigns one element of an array it owns
            tid = ev['target'].lstrip('@')
            a = self.store.get(tid)
            if isinstance(a, np.ndarray) and a.flags.writeable and a.size:
                idx = tuple(min(int(p), n - 1) for p, n in zip(ev.get('pos', [0] * a.ndim), a.shape))
                a[idx] = ev['value']
                self.fault('caller_write')
                if self.hooks is not None and hasattr(self.hooks, 'on_dirty'):
                    self.hooks.on_dirty(self, tid)
        elif kind == 'freeze':
            n = 0
            for t in ev['targets']:
                tid = t.lstrip('@')
                a = self.store.get(tid)
                if isinstance(a, np.ndarray) and a.flags.writeable:
                    a.flags.writeable = False
                    self.frozen[tid] = a
                    n += 1
            if n:
                self.fault('freeze')
        else:
            raise HarnessError('unknown env event %r' % (ev,))

    def _arrays_of(self, obj):
        L = self.L
        if isinstance(obj, np.ndarray):
            return [obj]
        if isinstance(obj, L.Plane):
            return [x for x in (obj.amplitude, obj.opd, obj.mask) if isinstance(x, np.ndarray)]
        if isinstance(obj, L.Wavefront):
            return [f.data for f in obj.data]
        if isinstance(obj, L.radiometry.Spectrum):
            return [x for x in (obj.wave, obj.value) if isinstance(x, np.ndarray)]
        if isinstance(obj, (list, tuple)):
            return [x for x in obj if isinstance(x, np.ndarray)]
        return []

    def _shared(self, tid, a):
        """Does any OTHER store entry share memory with array `a` (a view of a caller array, an alias)?"""
        for k, o in self.store.items():
            if k == tid:
                continue
            for b in self._arrays_of(o):
                if b is a or np.may_share_memory(a, b):
                    return True
        return False

    def history_digest(self):
        h = hashlib.sha1()
        for rec in self.history:
            h.update(repr(rec).encode())
        return h.hexdigest()[:16]


def dirty_fill(a, fill, seed=0):
    """Overwrite a caller buffer with garbage (fault F2)."""
    if fill == 'nan':
        a[...] = np.nan
    elif fill == 'inf':
        a[...] = np.inf
    elif fill == 'big':
        a[...] = 1e300
    elif fill == 'neg':
        a[...] = -12345.678
    else:  # 'garbage'
        g = np.random.Generator(np.random.PCG64(int(seed)))
        v = g.normal(size=a.shape) * 1e3
        if np.iscomplexobj(a):
            v = v + 1j * g.normal(size=a.shape) * 1e3
        a[...] = v


class Hooks:
    """Oracle hooks; scenarios subclass this."""

    def before(self, it, i, ev):
        pass

    def after(self, it, i, ev, out):
        pass

    def finish(self, it):
        pass


def close(a, b, rtol=1e-9, atol_scale=1e-12):
    """|a-b| <= rtol*max|b| + tiny, elementwise, same shape; NaN never equal."""
    a = np.asarray(a)
    b = np.asarray(b)
    if a.shape != b.shape:
        return False
    if a.size == 0:
        return True
    ref = np.max(np.abs(b)) if np.all(np.isfinite(b)) else np.inf
    if not np.isfinite(ref):
        return False
    if not np.all(np.isfinite(a)):
        return False
    tol = rtol * ref + atol_scale * max(ref, 1e-300) + 1e-300
    return bool(np.max(np.abs(a - b)) <= tol)


def maxerr(a, b):
    a = np.asarray(a)
    b = np.asarray(b)
    if a.shape != b.shape:
        return 'shape %s vs %s' % (a.shape, b.shape)
    if a.size == 0:
        return '0 (empty)'
    with np.errstate(all='ignore'):
        return '%.3g (ref max %.3g)' % (np.max(np.abs(a - b)), np.max(np.abs(b)))
