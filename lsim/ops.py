"""The public-API vocabulary callers can use.  name -> callable(L, *args, **kwargs).

``L`` is the lentil module under test.  Nothing here re-implements lentil; every entry is
one public API call (or attribute access) on the real code.
"""
import os

import numpy as np


def _attr(L, obj, name):
    return getattr(obj, name)


def _setattr(L, obj, name, value):
    setattr(obj, name, value)
    return None


def _method(name):
    def f(L, obj, *a, **k):
        return getattr(obj, name)(*a, **k)
    f.__name__ = name
    return f


def _wavefront_empty_like(L, w, wavelength=None):
    """Wavefront.empty(...) carrying the same data (public constructor + public attribute)."""
    out = L.Wavefront.empty(wavelength=w.wavelength if wavelength is None else wavelength,
                            pixelscale=None if w.pixelscale is None else tuple(w.pixelscale),
                            focal_length=w.focal_length, shape=w.shape, ptype=w.ptype)
    out.data = list(w.data)
    return out


def _binop(sym):
    import operator
    op = {'+': operator.add, '-': operator.sub, '*': operator.mul, '/': operator.truediv,
          '**': operator.pow}[sym]

    def f(L, a, b):
        return op(a, b)
    return f


def _call(L, path, *a, **k):
    """Any public function by its dotted path below `lentil` (lsim/scenarios/autocalls.py)."""
    f = L
    for part in path.split('.'):
        f = getattr(f, part)
    return f(*a, **k)


def _callm(L, obj, name, *a, **k):
    return getattr(obj, name)(*a, **k)


def _crop_idx(L, s, i, j):
    """The owner crops its spectrum to the closed range between two of its own current samples (documented in-place edit)."""
    n = len(s.wave)
    i = max(0, min(int(i), n - 1))
    j = max(i, min(int(j), n - 1))
    return s.crop(s.wave[i] * (1 - 1e-12), s.wave[j] * (1 + 1e-12))


def _churn_planes(L, w, names):
    """A loop a user writes: a plane is built by type name, applied once and dropped before the next one is built.  Each plane (and the
    type object made for it) is short-lived, so the next one is usually placed at the address the previous one had -- whatever the
    allocator does, the outcome of every product is a function of the two types."""
    out = []
    for n in names:
        p = L.Plane(ptype=n)
        try:
            r = p.multiply(w)
            out.append(str(r.ptype))
            del r
        except Exception as e:      # noqa
            out.append(type(e).__name__)
        del p
    return out


_FOREIGN = """
import pickle, sys, numpy as np, lentil
names = %r
objs = [lentil.Plane(ptype=n) for n in names]
objs += [lentil.Pupil(amplitude=np.ones((4, 4)), pixelscale=1e-3, focal_length=2.0), lentil.Image(), lentil.Tilt(x=1e-6, y=0.0)]
objs += [lentil.Wavefront(5e-7), lentil.Wavefront(5e-7, ptype=lentil.pupil, focal_length=2.0), lentil.Wavefront(5e-7, ptype=lentil.image)]
sys.stdout.buffer.write(pickle.dumps(objs))
"""


def _foreign_products(L, names, hashseed):
    """Durable state crossing a process boundary: planes and wavefronts saved (pickled) by another interpreter -- one with a different
    string-hash seed, as any later session or spawned worker has -- are loaded here and used with objects made here.
    -> list of (plane class, plane type, wavefront type, outcome) for loaded-plane x local-wavefront and local-plane x loaded-wavefront."""
    import pickle
    import subprocess
    import sys
    root = os.path.dirname(os.path.dirname(os.path.abspath(L.__file__)))
    env = dict(os.environ, PYTHONHASHSEED=str(int(hashseed)), PYTHONPATH=root, PYTHONDONTWRITEBYTECODE='1')
    p = subprocess.run([sys.executable, '-c', _FOREIGN % (list(names),)], env=env, capture_output=True, timeout=120)
    if p.returncode != 0:
        from .core import HarnessError      # (the second interpreter did not run: the simulator's problem, never a verdict on lentil)
        raise HarnessError('the saving interpreter failed: %s' % p.stderr.decode()[-300:])
    objs = pickle.loads(p.stdout)
    planes, waves = objs[:-3], objs[-3:]
    local_w = [L.Wavefront(5e-7), L.Wavefront(5e-7, ptype=L.pupil, focal_length=2.0), L.Wavefront(5e-7, ptype=L.image)]
    local_p = [L.Plane(ptype=n) for n in names]
    out = []
    for ps, ws in ((planes, local_w), (local_p, waves)):
        for pl in ps:
            for w in ws:
                try:
                    got = str(pl.multiply(w).ptype)
                except Exception as e:      # noqa
                    got = type(e).__name__
                out.append((type(pl).__name__, str(pl.ptype), str(w.ptype), got))
    return out


def _churn_spectra(L, s, opname, operands, left):
    """A loop over a catalogue: each entry is made into a Spectrum, combined once with `s` and dropped before the next is made, so
    successive operands (and their arrays) tend to live at the same addresses.  -> [(wave, value, waveunit) of each result]"""
    out = []
    for wave, value, unit in operands:
        t = L.radiometry.Spectrum(np.array(wave, dtype=float), np.array(value, dtype=float), waveunit=unit)
        try:
            r = getattr(t, opname)(s) if left else getattr(s, opname)(t)
            out.append((np.array(r.wave, dtype=float), np.array(r.value, dtype=float), str(r.waveunit)))
            del r
        except Exception as e:      # noqa
            out.append(type(e).__name__)
        del t
    return out


def _churn_views(L, n, seeds, weight):
    """A Monte-Carlo loop: every trial builds a new two-segment pupil (segments disjoint pixel-wise, bounding boxes overlapping, so the
    two fields are merged when the views are formed), sends a new wavefront through it, reads the views and drops everything before
    the next trial.  -> [(|intensity - |field|^2|, |insert - weight*|field|^2|, both relative to max |field|^2)]"""
    n = int(n)
    mask = np.zeros((2, n, n))
    h = n // 2
    mask[0, 1:h + 3, 1:h + 1] = np.triu(np.ones((h + 2, h)))
    mask[1, h - 2:n - 1, h - 2:n - 1] = np.tril(np.ones((n - h + 1, n - h + 1)))
    mask[1][mask[0] > 0] = 0
    sup = mask.sum(axis=0)

    def trial(amp, opd, wl):
        # (a function of its own, as in user code: every object of a trial is released when it returns)
        p = L.Pupil(amplitude=amp, opd=opd, mask=mask, pixelscale=1.0 / n, focal_length=10.0)
        w = L.Wavefront(wl) * p
        ref = np.abs(w.field) ** 2
        scale = max(float(ref.max()), 1e-300)
        e_int = float(np.max(np.abs(w.intensity - ref))) / scale
        acc = w.insert(np.zeros(ref.shape), weight)
        e_ins = float(np.max(np.abs(acc - weight * ref))) / scale
        return e_int, e_ins, len(w.data)

    out = []
    for sd in seeds:
        g = np.random.Generator(np.random.PCG64(int(sd)))
        amp = g.uniform(0.5, 1.5, size=sup.shape) * sup
        opd = g.normal(scale=6e-8, size=sup.shape)
        out.append(trial(amp, opd, float(g.uniform(4.5e-7, 9e-7))))
    return out


def _crop_ulp(L, s, i, j, klo, khi):
    """Crop limits a few units in the last place away from two of the spectrum's own current samples (what limits computed elsewhere, or
    samples that went through a unit round trip, look like).  The closed range is exact.  -> the limits used"""
    w = np.asarray(s.wave, dtype=float)
    n = len(w)
    i = max(0, min(int(i), n - 1))
    j = max(i, min(int(j), n - 1))
    lo, hi = float(w[i]), float(w[j])
    for _ in range(abs(int(klo))):
        lo = float(np.nextafter(lo, np.inf if klo > 0 else -np.inf))
    for _ in range(abs(int(khi))):
        hi = float(np.nextafter(hi, np.inf if khi > 0 else -np.inf))
    if int(np.count_nonzero((w >= lo) & (w <= hi))) < 2:
        return None         # (the spectrum has shrunk since the step was planned: nothing sensible to cut)
    s.crop(lo, hi)
    return (lo, hi)


def _pad_nonfinite(L, s, what):
    """Pad one step beyond both ends with values that are not finite (a sentinel for "no data")."""
    w = np.asarray(s.wave, dtype=float)
    d = float(w[1] - w[0])
    v = {'inf': np.inf, 'nan': np.nan, '-inf': -np.inf}[what]
    s.pad((float(w[0]) - d, float(w[-1]) + d), values=(v, v))
    return None


def _crop_finite(L, s):
    """Back to the samples that hold data."""
    w = np.asarray(s.wave, dtype=float)
    ok = np.flatnonzero(np.isfinite(np.asarray(s.value, dtype=float)))
    if ok.size >= 2:
        s.crop(float(w[ok[0]]), float(w[ok[-1]]))
    return None


_FOREIGN_SEEDED = """
import hashlib, sys, json, numpy as np, lentil
def dig(a):
    a = np.ascontiguousarray(np.asarray(a))
    return hashlib.sha1(str(a.dtype).encode() + str(a.shape).encode() + a.tobytes()).hexdigest()
img = np.arange(48, dtype=float).reshape(6, 8) * 350.0 + 2000.0
mask = lentil.circle((12, 12), 5.2)
out = {}
for seed in (0, 5, 12345, [3, 4]):
    k = json.dumps(seed)
    out['shot_poisson/' + k] = dig(lentil.detector.shot_noise(img, method='poisson', seed=seed))
    out['shot_gaussian/' + k] = dig(lentil.detector.shot_noise(img, method='gaussian', seed=seed))
    out['read/' + k] = dig(lentil.detector.read_noise(img, 7.5, seed=seed))
    out['dark/' + k] = dig(lentil.detector.dark_current(40.5, shape=(5, 6), fpn_factor=0.2, seed=seed))
    out['rule07/' + k] = dig(lentil.detector.rule07_dark_current(120.0, 5e-6, 18e-6, shape=(4, 5), fpn_factor=0.2, seed=seed))
    out['psd/' + k] = dig(lentil.power_spectrum(mask, pixelscale=1e-3, rms=5e-8, half_power_freq=8.0, exp=3.0, seed=seed))
sys.stdout.write(json.dumps(out, sort_keys=True))
"""


def _foreign_seeded(L, hashseed):
    """Every seeded model evaluated with fixed arguments here and in a second interpreter started with another string-hash seed (any
    later session, any spawned worker): "a deterministic function of its arguments and seed" holds across interpreters too.
    -> {call: (digest here, digest there)}"""
    import json
    import subprocess
    import sys
    root = os.path.dirname(os.path.dirname(os.path.abspath(L.__file__)))
    res = []
    for hs in (None, hashseed):
        env = dict(os.environ, PYTHONPATH=root, PYTHONDONTWRITEBYTECODE='1', OMP_NUM_THREADS='1', OPENBLAS_NUM_THREADS='1', MKL_NUM_THREADS='1')
        if hs is None:
            env.pop('PYTHONHASHSEED', None)
            env['PYTHONHASHSEED'] = '0'
        else:
            env['PYTHONHASHSEED'] = str(int(hs))
        p = subprocess.run([sys.executable, '-c', _FOREIGN_SEEDED], env=env, capture_output=True, timeout=180)
        if p.returncode != 0:
            from .core import HarnessError
            raise HarnessError('the second interpreter failed: %s' % p.stderr.decode()[-300:])
        res.append(json.loads(p.stdout.decode()))
    return {k: (res[0][k], res[1].get(k)) for k in res[0]}


def _series_read_noise(L, npix, sigma, nseeds, seed0):
    """A small region read out again and again with consecutive seeds (a per-pixel noise measurement).  -> the samples, (nseeds, npix)"""
    base = np.full((1, int(npix)), 1000.0)
    out = np.empty((int(nseeds), int(npix)))
    for j in range(int(nseeds)):
        out[j] = np.asarray(L.detector.read_noise(base, sigma, seed=int(seed0) + j), dtype=float).ravel() - 1000.0
    return out


def _assign_values(L, s, seed):
    """The owner assigns new values, one per current wavelength, through the documented attribute."""
    g = np.random.Generator(np.random.PCG64(int(seed)))
    s.value = np.round(g.uniform(0.0, 1.0, size=len(s.wave)), 3)
    return None


FNS = {
    # ---- generic
    'h.crop_idx': _crop_idx,
    'h.assign_values': _assign_values,
    'call': _call,
    'callm': _callm,
    'attr': _attr,
    'setattr': _setattr,
    'np.copy': lambda L, a: np.array(a, copy=True),
    'deepcopy': lambda L, o: __import__('copy').deepcopy(o),
    'np.add': lambda L, a, b: a + b,
    'zeros': lambda L, shape, dtype='float': np.zeros(tuple(shape), dtype=dtype),
    # ---- planes
    'Plane': lambda L, **k: L.Plane(**k),
    'Pupil': lambda L, **k: L.Pupil(**k),
    'Image': lambda L, **k: L.Image(**k),
    'Tilt': lambda L, **k: L.Tilt(**k),
    'DispersiveTilt': lambda L, **k: L.DispersiveTilt(**k),
    'Grism': lambda L, **k: L.Grism(**k),
    'Rotate': lambda L, **k: L.Rotate(**k),
    'Flip': lambda L, **k: L.Flip(**k),
    'LensletArray': lambda L, **k: L.LensletArray(**k),
    'Plane.multiply': lambda L, p, w: p.multiply(w),
    'w*p': lambda L, w, p: w * p,
    'p*w': lambda L, p, w: p * w,
    'w*=p': lambda L, w, p: __import__('operator').imul(w, p),
    'asfortran': lambda L, a: np.asfortranarray(a),
    'astype': lambda L, a, dtype: np.asarray(a).astype(dtype),
    'transposed_view': lambda L, a: np.ascontiguousarray(np.asarray(a).T).T,
    'Plane.fit_tilt': lambda L, p, inplace=False: p.fit_tilt(inplace=inplace),
    'Plane.copy': _method('copy'),
    'Plane.rescale': _method('rescale'),
    'Plane.resample': _method('resample'),
    'Tilt.shift': lambda L, t, **k: t.shift(**k),
    # ---- wavefronts and propagation
    'Wavefront': lambda L, *a, **k: L.Wavefront(*a, **k),
    'Wavefront.empty': lambda L, *a, **k: L.Wavefront.empty(*a, **k),
    'Wavefront.insert': lambda L, w, out, weight=1: w.insert(out, weight),
    'Wavefront.like': _wavefront_empty_like,
    'propagate_dft': lambda L, w, **k: L.propagate_dft(w, **k),
    'propagate_fft': lambda L, w, **k: L.propagate_fft(w, **k),
    'scratch_shape': lambda L, **k: L.scratch_shape(**k),
    'Field': lambda L, **k: L.field.Field(**k),
    'Field.shift': lambda L, f, **k: f.shift(**k),
    # ---- fourier
    'dft2': lambda L, f, alpha, **k: L.fourier.dft2(f, alpha, **k),
    'idft2': lambda L, f, alpha, **k: L.fourier.idft2(f, alpha, **k),
    # ---- util / shapes / zernike
    'pad': lambda L, a, shape: L.pad(a, tuple(shape)),
    'window': lambda L, a, **k: L.window(a, **k),
    'subarray': lambda L, a, shape, shift=(0, 0): L.subarray(a, tuple(shape), tuple(shift)),
    'rebin': lambda L, a, factor: L.rebin(a, factor),
    'rescale': lambda L, a, scale, **k: L.rescale(a, scale, **k),
    'normalize_power': lambda L, a, power=1: L.normalize_power(a, power),
    'centroid': lambda L, a: L.centroid(a),
    'boundary': lambda L, a, threshold=0: L.boundary(a, threshold),
    'circle': lambda L, shape, radius, **k: L.circle(tuple(shape), radius, **k),
    'hexagon': lambda L, shape, radius, **k: L.hexagon(tuple(shape), radius, **k),
    'rectangle': lambda L, shape, width, height, **k: L.rectangle(tuple(shape), width, height, **k),
    'hex_segments': lambda L, **k: L.hex_segments(**k),
    'spider': lambda L, shape, width, **k: L.spider(tuple(shape), width, **k),
    'pixelscale_nyquist': lambda L, wave, f_number: L.pixelscale_nyquist(wave, f_number),
    'min_sampling': lambda L, wave, z, du, shape, min_q: L.min_sampling(wave, z, du, shape, min_q),
    'sanitize_shape': lambda L, shape: L.sanitize_shape(shape),
    'sanitize_bandpass': lambda L, vec: L.sanitize_bandpass(vec),
    'zernike_coordinates': lambda L, mask, **k: L.zernike_coordinates(mask, **k),
    'mesh': lambda L, shape, **k: L.helper.mesh(tuple(shape), **k),
    'gaussian2d': lambda L, size, sigma: L.helper.gaussian2d(size, sigma),
    'boundary_slice': lambda L, x, **k: L.helper.boundary_slice(x, **k),
    'field.reduce': lambda L, w: L.field.reduce(w.data),
    'field.overlap': lambda L, w: L.field.overlap(w.data),
    'zernike': lambda L, mask, index, **k: L.zernike(mask, index, **k),
    'zernike_compose': lambda L, mask, coeffs, **k: L.zernike_compose(mask, coeffs, **k),
    'zernike_fit': lambda L, opd, mask, modes, **k: L.zernike_fit(opd, mask, modes, **k),
    'zernike_remove': lambda L, opd, mask, modes, **k: L.zernike_remove(opd, mask, modes, **k),
    'zernike_basis': lambda L, mask, modes, **k: L.zernike_basis(mask, modes, **k),
    'power_spectrum': lambda L, mask, **k: L.power_spectrum(mask, **k),
    'translation_defocus': lambda L, mask, **k: L.translation_defocus(mask, **k),
    # ---- detector / convolvable
    'collect_charge': lambda L, img, wave, qe, **k: L.detector.collect_charge(img, wave, qe, **k),
    'collect_charge_bayer': lambda L, img, wave, **k: L.detector.collect_charge_bayer(img, wave, **k),
    'pixel': lambda L, img, **k: L.detector.pixel(img, **k),
    'pixelate': lambda L, img, **k: L.detector.pixelate(img, **k),
    'adc': lambda L, img, gain, **k: L.detector.adc(img, gain, **k),
    'shot_noise': lambda L, img, **k: L.detector.shot_noise(img, **k),
    'read_noise': lambda L, img, electrons, **k: L.detector.read_noise(img, electrons, **k),
    'charge_diffusion': lambda L, img, sigma, **k: L.detector.charge_diffusion(img, sigma, **k),
    'dark_current': lambda L, rate, **k: L.detector.dark_current(rate, **k),
    'rule07_dark_current': lambda L, *a, **k: L.detector.rule07_dark_current(*a, **k),
    'cosmic_rays': lambda L, shape, pixelscale, ts, **k: L.detector.cosmic_rays(tuple(shape), tuple(pixelscale), ts, **k),
    'jitter': lambda L, img, scale, **k: L.jitter(img, scale, **k),
    'smear': lambda L, img, distance, **k: L.smear(img, distance, **k),
    # ---- radiometry
    'Spectrum': lambda L, wave, value, **k: L.radiometry.Spectrum(wave, value, **k),
    'Blackbody': lambda L, wave, temp, **k: L.radiometry.Blackbody(wave, temp, **k),
    'h.crop_ulp': _crop_ulp,
    'h.pad_nonfinite': _pad_nonfinite,
    'h.crop_finite': _crop_finite,
    'pylist': lambda L, values: list(values),
    'foreign.seeded': _foreign_seeded,
    'series.read_noise': _series_read_noise,
    'churn.planes': _churn_planes,
    'churn.views': _churn_views,
    'churn.spectra': _churn_spectra,
    'foreign.products': _foreign_products,
    'Material': lambda L, **k: L.radiometry.Material(**k),
    # the product a Material hands out: contam * transmission (or emission).  The two operands are named in the event so that the
    # arithmetic oracles can judge it like any other product
    'material.product': lambda L, contam, spec, mat, which: getattr(mat, which),
    'Spectrum.copy': _method('copy'),
    'Spectrum.add': _method('add'),
    'Spectrum.subtract': _method('subtract'),
    'Spectrum.multiply': _method('multiply'),
    'Spectrum.divide': _method('divide'),
    'Spectrum.power': _method('power'),
    's+': _binop('+'), 's-': _binop('-'), 's*': _binop('*'), 's/': _binop('/'), 's**': _binop('**'),
    's+=': lambda L, a, b: __import__('operator').iadd(a, b), 's-=': lambda L, a, b: __import__('operator').isub(a, b),
    's*=': lambda L, a, b: __import__('operator').imul(a, b), 's/=': lambda L, a, b: __import__('operator').itruediv(a, b),
    's**=': lambda L, a, b: __import__('operator').ipow(a, b),
    'Spectrum.sample': _method('sample'),
    'Spectrum.integrate': _method('integrate'),
    'Spectrum.bin': _method('bin'),
    'Spectrum.asarray': _method('asarray'),
    'Spectrum.to': _method('to'),
    'Spectrum.resample': _method('resample'),
    'Spectrum.crop': _method('crop'),
    'Spectrum.trim': _method('trim'),
    'Spectrum.pad': _method('pad'),
    'Spectrum.append': _method('append'),
    'Spectrum.ends': _method('ends'),
    'path_transmission': lambda L, items: L.radiometry.path_transmission(items),
    'path_emission': lambda L, items, **k: L.radiometry.path_emission(items, **k),
    'planck_radiance': lambda L, wave, temp, **k: L.radiometry.planck_radiance(wave, temp, **k),
    'planck_exitance': lambda L, wave, temp, **k: L.radiometry.planck_exitance(wave, temp, **k),
    'vegaflux': lambda L, band, **k: L.radiometry.vegaflux(band, **k),
    'qe_asarray': lambda L, qe, wave, waveunit: L.detector.qe_asarray(qe, wave, waveunit),
}
