"""The public-API vocabulary callers can use.  name -> callable(L, *args, **kwargs).

``L`` is the lentil module under test.  Nothing here re-implements lentil; every entry is
one public API call (or attribute access) on the real code.
"""
import numpy as np


def _attr(L, obj, name):
    return getattr(obj, name)


def _setattr(L, obj, name, value):
    setattr(obj, name, value)
    return None


def _method(name):
    def f(L, obj, *a, **k):
        return getattr(obj, name)(*a, **k)
    f.__name__ = name
    return f


def _wavefront_empty_like(L, w, wavelength=None):
    """Wavefront.empty(...) carrying the same data (public constructor + public attribute)."""
    out = L.Wavefront.empty(wavelength=w.wavelength if wavelength is None else wavelength,
                            pixelscale=None if w.pixelscale is None else tuple(w.pixelscale),
                            focal_length=w.focal_length, shape=w.shape, ptype=w.ptype)
    out.data = list(w.data)
    return out


def _binop(sym):
    import operator
    op = {'+': operator.add, '-': operator.sub, '*': operator.mul, '/': operator.truediv,
          '**': operator.pow}[sym]

    def f(L, a, b):
        return op(a, b)
    return f


def _call(L, path, *a, **k):
    """Any public function by its dotted path below `lentil` (lsim/scenarios/autocalls.py)."""
    f = L
    for part in path.split('.'):
        f = getattr(f, part)
    return f(*a, **k)


def _callm(L, obj, name, *a, **k):
    return getattr(obj, name)(*a, **k)


def _crop_idx(L, s, i, j):
    """The owner crops its spectrum to the closed range between two of its own current samples (documented in-place edit)."""
    n = len(s.wave)
    i = max(0, min(int(i), n - 1))
    j = max(i, min(int(j), n - 1))
    return s.crop(s.wave[i] * (1 - 1e-12), s.wave[j] * (1 + 1e-12))


def _assign_values(L, s, seed):
    """The owner assigns new values, one per current wavelength, through the documented attribute."""
    g = np.random.Generator(np.random.PCG64(int(seed)))
    s.value = np.round(g.uniform(0.0, 1.0, size=len(s.wave)), 3)
    return None


FNS = {
    # ---- generic
    'h.crop_idx': _crop_idx,
    'h.assign_values': _assign_values,
    'call': _call,
    'callm': _callm,
    'attr': _attr,
    'setattr': _setattr,
    'np.copy': lambda L, a: np.array(a, copy=True),
    'deepcopy': lambda L, o: __import__('copy').deepcopy(o),
    'np.add': lambda L, a, b: a + b,
    'zeros': lambda L, shape, dtype='float': np.zeros(tuple(shape), dtype=dtype),
    # ---- planes
    'Plane': lambda L, **k: L.Plane(**k),
    'Pupil': lambda L, **k: L.Pupil(**k),
    'Image': lambda L, **k: L.Image(**k),
    'Tilt': lambda L, **k: L.Tilt(**k),
    'DispersiveTilt': lambda L, **k: L.DispersiveTilt(**k),
    'Grism': lambda L, **k: L.Grism(**k),
    'Rotate': lambda L, **k: L.Rotate(**k),
    'Flip': lambda L, **k: L.Flip(**k),
    'LensletArray': lambda L, **k: L.LensletArray(**k),
    'Plane.multiply': lambda L, p, w: p.multiply(w),
    'w*p': lambda L, w, p: w * p,
    'p*w': lambda L, p, w: p * w,
    'w*=p': lambda L, w, p: __import__('operator').imul(w, p),
    'asfortran': lambda L, a: np.asfortranarray(a),
    'astype': lambda L, a, dtype: np.asarray(a).astype(dtype),
    'transposed_view': lambda L, a: np.ascontiguousarray(np.asarray(a).T).T,
    'Plane.fit_tilt': lambda L, p, inplace=False: p.fit_tilt(inplace=inplace),
    'Plane.copy': _method('copy'),
    'Plane.rescale': _method('rescale'),
    'Plane.resample': _method('resample'),
    'Tilt.shift': lambda L, t, **k: t.shift(**k),
    # ---- wavefronts and propagation
    'Wavefront': lambda L, *a, **k: L.Wavefront(*a, **k),
    'Wavefront.insert': lambda L, w, out, weight=1: w.insert(out, weight),
    'Wavefront.like': _wavefront_empty_like,
    'propagate_dft': lambda L, w, **k: L.propagate_dft(w, **k),
    'propagate_fft': lambda L, w, **k: L.propagate_fft(w, **k),
    'scratch_shape': lambda L, **k: L.scratch_shape(**k),
    'Field': lambda L, **k: L.field.Field(**k),
    'Field.shift': lambda L, f, **k: f.shift(**k),
    # ---- fourier
    'dft2': lambda L, f, alpha, **k: L.fourier.dft2(f, alpha, **k),
    'idft2': lambda L, f, alpha, **k: L.fourier.idft2(f, alpha, **k),
    # ---- util / shapes / zernike
    'pad': lambda L, a, shape: L.pad(a, tuple(shape)),
    'window': lambda L, a, **k: L.window(a, **k),
    'subarray': lambda L, a, shape, shift=(0, 0): L.subarray(a, tuple(shape), tuple(shift)),
    'rebin': lambda L, a, factor: L.rebin(a, factor),
    'rescale': lambda L, a, scale, **k: L.rescale(a, scale, **k),
    'normalize_power': lambda L, a, power=1: L.normalize_power(a, power),
    'centroid': lambda L, a: L.centroid(a),
    'boundary': lambda L, a, threshold=0: L.boundary(a, threshold),
    'circle': lambda L, shape, radius, **k: L.circle(tuple(shape), radius, **k),
    'hexagon': lambda L, shape, radius, **k: L.hexagon(tuple(shape), radius, **k),
    'rectangle': lambda L, shape, width, height, **k: L.rectangle(tuple(shape), width, height, **k),
    'hex_segments': lambda L, **k: L.hex_segments(**k),
    'spider': lambda L, shape, width, **k: L.spider(tuple(shape), width, **k),
    'pixelscale_nyquist': lambda L, wave, f_number: L.pixelscale_nyquist(wave, f_number),
    'min_sampling': lambda L, wave, z, du, shape, min_q: L.min_sampling(wave, z, du, shape, min_q),
    'sanitize_shape': lambda L, shape: L.sanitize_shape(shape),
    'sanitize_bandpass': lambda L, vec: L.sanitize_bandpass(vec),
    'zernike_coordinates': lambda L, mask, **k: L.zernike_coordinates(mask, **k),
    'mesh': lambda L, shape, **k: L.helper.mesh(tuple(shape), **k),
    'gaussian2d': lambda L, size, sigma: L.helper.gaussian2d(size, sigma),
    'boundary_slice': lambda L, x, **k: L.helper.boundary_slice(x, **k),
    'field.reduce': lambda L, w: L.field.reduce(w.data),
    'field.overlap': lambda L, w: L.field.overlap(w.data),
    'zernike': lambda L, mask, index, **k: L.zernike(mask, index, **k),
    'zernike_compose': lambda L, mask, coeffs, **k: L.zernike_compose(mask, coeffs, **k),
    'zernike_fit': lambda L, opd, mask, modes, **k: L.zernike_fit(opd, mask, modes, **k),
    'zernike_remove': lambda L, opd, mask, modes, **k: L.zernike_remove(opd, mask, modes, **k),
    'zernike_basis': lambda L, mask, modes, **k: L.zernike_basis(mask, modes, **k),
    'power_spectrum': lambda L, mask, **k: L.power_spectrum(mask, **k),
    'translation_defocus': lambda L, mask, **k: L.translation_defocus(mask, **k),
    # ---- detector / convolvable
    'collect_charge': lambda L, img, wave, qe, **k: L.detector.collect_charge(img, wave, qe, **k),
    'collect_charge_bayer': lambda L, img, wave, **k: L.detector.collect_charge_bayer(img, wave, **k),
    'pixel': lambda L, img, **k: L.detector.pixel(img, **k),
    'pixelate': lambda L, img, **k: L.detector.pixelate(img, **k),
    'adc': lambda L, img, gain, **k: L.detector.adc(img, gain, **k),
    'shot_noise': lambda L, img, **k: L.detector.shot_noise(img, **k),
    'read_noise': lambda L, img, electrons, **k: L.detector.read_noise(img, electrons, **k),
    'charge_diffusion': lambda L, img, sigma, **k: L.detector.charge_diffusion(img, sigma, **k),
    'dark_current': lambda L, rate, **k: L.detector.dark_current(rate, **k),
    'rule07_dark_current': lambda L, *a, **k: L.detector.rule07_dark_current(*a, **k),
    'cosmic_rays': lambda L, shape, pixelscale, ts, **k: L.detector.cosmic_rays(tuple(shape), tuple(pixelscale), ts, **k),
    'jitter': lambda L, img, scale, **k: L.jitter(img, scale, **k),
    'smear': lambda L, img, distance, **k: L.smear(img, distance, **k),
    # ---- radiometry
    'Spectrum': lambda L, wave, value, **k: L.radiometry.Spectrum(wave, value, **k),
    'Blackbody': lambda L, wave, temp, **k: L.radiometry.Blackbody(wave, temp, **k),
    'Material': lambda L, **k: L.radiometry.Material(**k),
    # the product a Material hands out: contam * transmission (or emission).  The two operands are named in the event so that the
    # arithmetic oracles can judge it like any other product
    'material.product': lambda L, contam, spec, mat, which: getattr(mat, which),
    'Spectrum.copy': _method('copy'),
    'Spectrum.add': _method('add'),
    'Spectrum.subtract': _method('subtract'),
    'Spectrum.multiply': _method('multiply'),
    'Spectrum.divide': _method('divide'),
    'Spectrum.power': _method('power'),
    's+': _binop('+'), 's-': _binop('-'), 's*': _binop('*'), 's/': _binop('/'), 's**': _binop('**'),
    's+=': lambda L, a, b: __import__('operator').iadd(a, b), 's-=': lambda L, a, b: __import__('operator').isub(a, b),
    's*=': lambda L, a, b: __import__('operator').imul(a, b), 's/=': lambda L, a, b: __import__('operator').itruediv(a, b),
    's**=': lambda L, a, b: __import__('operator').ipow(a, b),
    'Spectrum.sample': _method('sample'),
    'Spectrum.integrate': _method('integrate'),
    'Spectrum.bin': _method('bin'),
    'Spectrum.asarray': _method('asarray'),
    'Spectrum.to': _method('to'),
    'Spectrum.resample': _method('resample'),
    'Spectrum.crop': _method('crop'),
    'Spectrum.trim': _method('trim'),
    'Spectrum.pad': _method('pad'),
    'Spectrum.append': _method('append'),
    'Spectrum.ends': _method('ends'),
    'path_transmission': lambda L, items: L.radiometry.path_transmission(items),
    'path_emission': lambda L, items, **k: L.radiometry.path_emission(items, **k),
    'planck_radiance': lambda L, wave, temp, **k: L.radiometry.planck_radiance(wave, temp, **k),
    'planck_exitance': lambda L, wave, temp, **k: L.radiometry.planck_exitance(wave, temp, **k),
    'vegaflux': lambda L, band, **k: L.radiometry.vegaflux(band, **k),
    'qe_asarray': lambda L, qe, wave, waveunit: L.detector.qe_asarray(qe, wave, waveunit),
}
