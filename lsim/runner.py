"""Batch runner: fork-per-chunk pool, must-hit probes, known findings, minimisation,
replay verification, evidence and the exit protocol (DESIGN.md sections 5, 6).

Exit codes: 0 held (possibly KNOWN-FINDING lines); 1 VIOLATION (reproduced from a minimised
replay file in a fresh interpreter); 2 HARNESS-ERROR (our machinery failed).
"""
import faulthandler
import json
import multiprocessing as mp
import multiprocessing.connection
import os
import random
import subprocess
import sys
import time
import traceback

from .core import derive_seed, vkey, HarnessError

VERIF = os.path.dirname(os.path.dirname(os.path.abspath(__file__)))
CHUNK = 25          # runs per forked child; fixed so results do not depend on worker count


# --------------------------------------------------------------------------- lentil loading

def lentil_root():
    return os.path.abspath(os.environ.get('VERIF_LENTIL_ROOT', '/repo'))


def load_lentil():
    root = lentil_root()
    if root not in sys.path[:1]:
        sys.path.insert(0, root)
    import lentil
    got = os.path.dirname(os.path.dirname(os.path.abspath(lentil.__file__)))
    if got != root:
        raise HarnessError('imported lentil from %s, wanted %s' % (got, root))
    import lentil.field, lentil.fourier, lentil.extent, lentil.helper, lentil.ptype  # noqa
    import lentil.radiometry, lentil.detector, lentil.wfe, lentil.convolvable  # noqa
    return lentil


# --------------------------------------------------------------------------- known findings

def load_findings(prop):
    """Parse /verif/known_findings.txt -> (known, fixed) lists of dicts for this property.

      known: property=<id> oracle=<o> sig=<json> replay=corpus/<f> :: <what fails>
      fixed: property=<id> <commit> <what failed> :: oracle=<o> sig=<json> replay=corpus/<f>
    """
    path = os.path.join(VERIF, 'known_findings.txt')
    known, fixed = [], []
    if not os.path.exists(path):
        return known, fixed
    for line in open(path):
        line = line.strip()
        kind, _, rest = line.partition(':')
        kind = kind.strip()
        if kind not in ('known', 'fixed') or '::' not in rest:
            continue
        left, _, right = rest.partition('::')
        fields, what = (left, right) if kind == 'known' else (right, left)
        toks = dict(t.split('=', 1) for t in (left.split() + right.split()) if '=' in t and t.split('=', 1)[0] in
                    ('property', 'oracle', 'sig', 'replay'))
        if toks.get('property') != prop or 'oracle' not in toks or 'sig' not in toks:
            continue
        try:
            sig = json.loads(toks['sig'])
        except ValueError:
            raise HarnessError('unparseable signature in known_findings.txt: %s' % line[:120])
        ent = {'property': prop, 'oracle': toks['oracle'], 'sig': sig, 'replay': toks.get('replay'),
               'what': what.strip(), 'key': vkey(toks['oracle'], sig)}
        (known if kind == 'known' else fixed).append(ent)
    return known, fixed


# --------------------------------------------------------------------------- fork pool

def _child(fn, task, conn, timeout_s):
    try:
        faulthandler.dump_traceback_later(timeout_s, exit=True)
        try:
            import resource
            lim = int(os.environ.get('LSIM_MEM_GB', '6')) * (1 << 30)
            resource.setrlimit(resource.RLIMIT_AS, (lim, lim))      # a runaway allocation raises MemoryError instead of being OOM-killed
        except Exception:
            pass
        res = fn(task)
        conn.send(('ok', res))
    except BaseException:
        try:
            conn.send(('err', traceback.format_exc()))
        except Exception:
            pass
    finally:
        try:
            conn.close()
        finally:
            os._exit(0)


def fork_map(fn, tasks, nworkers, timeout_s):
    """Run fn(task) for every task, each in a fresh fork of this (clean) process."""
    ctx = mp.get_context('fork')
    results = [None] * len(tasks)
    pending = list(enumerate(tasks))
    active = {}
    while pending or active:
        while pending and len(active) < nworkers:
            idx, t = pending.pop(0)
            r, w = ctx.Pipe(duplex=False)
            p = ctx.Process(target=_child, args=(fn, t, w, timeout_s))
            p.start()
            w.close()
            active[r] = (idx, p, time.time() + timeout_s + 15)
        ready = mp.connection.wait(list(active), timeout=1.0)
        for r in ready:
            idx, p, _ = active.pop(r)
            try:
                msg = r.recv()
            except (EOFError, OSError):
                msg = ('died', 'child %d exited without a result (timeout or crash)' % idx)
            r.close()
            p.join(5)
            if msg[0] != 'ok':
                for (_, q, _) in active.values():
                    q.kill()
                raise HarnessError('worker for task %d failed: %s' % (idx, msg[1]))
            results[idx] = msg[1]
        now = time.time()
        for r, (idx, p, dl) in list(active.items()):
            if now > dl:
                for (_, q, _) in active.values():
                    q.kill()
                raise HarnessError('worker for task %d exceeded its deadline' % idx)
    return results


# --------------------------------------------------------------------------- executing runs

def prepare(scn, L):
    """Called by every worker process before it executes its first run (the process is still pristine): scenarios that use the
    `fresh` oracle get their pristine-process evaluator now (lsim/fresh.py)."""
    if getattr(scn, 'uses_fresh', False):
        from . import fresh
        fresh.start(L, scn.make_fns() if hasattr(scn, 'make_fns') else scn.fns)


def execute_run(scn, L, run):
    """-> json-able result dict"""
    res = scn.execute(L, run)
    return res


def _merge_counts(dst, src):
    for k, v in src.items():
        dst[k] = dst.get(k, 0) + v


class ChunkTask:
    def __init__(self, scn_name, prop, verif_seed, kind, indices, runs=None, audit=()):
        self.scn_name = scn_name
        self.prop = prop
        self.verif_seed = verif_seed
        self.kind = kind            # 'seeded' | 'given'
        self.indices = indices
        self.runs = runs
        self.audit = set(audit)


def make_run(scn, prop, verif_seed, i):
    seed = derive_seed(verif_seed, prop, i)
    rng = random.Random(seed)
    run = scn.generate(rng)
    run.setdefault('scenario', scn.name)
    run['seed'] = seed
    run['run_index'] = i
    return run


def chunk_worker(task):
    from . import scenarios
    L = load_lentil()
    scn = scenarios.get(task.scn_name, task.prop)
    prepare(scn, L)
    if getattr(scn, 'mem_gb', None):
        # sessions whose legal workload is small: a runaway allocation under a broken tree fails fast instead of paging for minutes
        try:
            import resource
            lim = int(float(scn.mem_gb) * (1 << 30))
            resource.setrlimit(resource.RLIMIT_AS, (lim, lim))
        except Exception:       # noqa
            pass
    agg = {'probes': {}, 'faults': {}, 'steps': 0, 'runs': 0, 'hists': [], 'viol': {},
           'states': set(), 'schedules': set(), 'samples': [], 'audit': {}, 'oracle_checks': {}}
    for j, i in enumerate(task.indices):
        run = task.runs[j] if task.kind == 'given' else make_run(scn, task.prop, task.verif_seed, i)
        res = scn.execute(L, run)
        agg['runs'] += 1
        agg['steps'] += res['steps']
        _merge_counts(agg['probes'], res['probes'])
        _merge_counts(agg['faults'], res['faults'])
        _merge_counts(agg['oracle_checks'], res.get('checks', {}))
        agg['hists'].append((res['hist'], bool(res['nontrivial'])))
        agg['states'].update(res.get('states', ()))
        if res.get('schedule'):
            agg['schedules'].add(res['schedule'])
        if i in task.audit:
            agg['audit'][i] = res['hist']
        if len(agg['samples']) < 1 and task.kind == 'seeded':
            agg['samples'].append({'run_index': i, 'seed': run.get('seed'), 'world': run['world'],
                                   'events': run['events'][:40]})
        for v in res['violations']:
            k = vkey(v['oracle'], v['sig'])
            ent = agg['viol'].get(k)
            if ent is None:
                agg['viol'][k] = {'count': 1, 'first': dict(v), 'run': run, 'index': i, 'pos': j}
            else:
                ent['count'] += 1
    agg['states'] = sorted(agg['states'])
    agg['schedules'] = sorted(agg['schedules'])
    return agg


def cold_worker(task):
    """Execute one run as the first thing this (freshly forked, clean) process ever does."""
    from . import scenarios
    L = load_lentil()
    scn = scenarios.get(task['scn'], task['prop'])
    prepare(scn, L)
    run = make_run(scn, task['prop'], task['verif_seed'], task['index'])
    res = scn.execute(L, run)
    return res['hist']


def shrink_worker(task):
    from . import scenarios, shrink
    L = load_lentil()
    scn = scenarios.get(task['scn'], task['prop'])
    return shrink.minimise(scn, L, task['run'], task['key'], budget=task.get('budget', 300))


def chunk_fails(scn, L, runs, key):
    """Execute runs in order in THIS process; does the last one show the violation?"""
    res = None
    for r in runs:
        res = scn.execute(L, r)
    return res is not None and any(vkey(v['oracle'], v['sig']) == key for v in res['violations'])


def _chunk_probe(task):
    from . import scenarios
    L = load_lentil()
    scn = scenarios.get(task['scn'], task['prop'])
    prepare(scn, L)
    return chunk_fails(scn, L, task['runs'], task['key'])


def shrink_chunk(scn_name, prop, runs, key, budget=40):
    """The violation needs state left behind by earlier runs of the same process: keep the failing run, drop
    as many predecessors as possible.  Every probe runs in a fresh fork (process state is the subject)."""
    def fails(rs):
        return fork_map(_chunk_probe, [{'scn': scn_name, 'prop': prop, 'runs': rs, 'key': key}], 1, 900)[0]
    if not fails(runs):
        raise HarnessError('violation %s reproduces neither from its run alone nor from the runs of its worker process' % key)
    n = 0
    i = 0
    while i < len(runs) - 1 and n < budget:
        cand = runs[:i] + runs[i + 1:]
        n += 1
        if fails(cand):
            runs = cand
        else:
            i += 1
    return runs


# --------------------------------------------------------------------------- replay

def replay_file(prop, path):
    """Execute a replay file in this process.  -> (reproduced?, violations found)"""
    from . import scenarios
    L = load_lentil()
    data = json.load(open(path))
    if data.get('kind') == 'coldwarm':
        return replay_coldwarm(prop, data)
    if data.get('kind') == 'chunk':
        scn = scenarios.get(data['scenario'], data.get('property', prop))
        prepare(scn, L)
        want = data['violation']
        res = None
        for r in data['runs']:
            res = scn.execute(L, r)
        keys = [vkey(v['oracle'], v['sig']) for v in res['violations']] if res else []
        return vkey(want['oracle'], want['sig']) in keys, (res['violations'] if res else [])
    scn = scenarios.get(data['scenario'], data.get('property', prop))
    prepare(scn, L)
    res = scn.execute(L, data)
    want = data.get('violation')
    keys = [vkey(v['oracle'], v['sig']) for v in res['violations']]
    if want:
        return vkey(want['oracle'], want['sig']) in keys, res['violations']
    return bool(keys), res['violations']


def replay_coldwarm(prop, data):
    from . import scenarios
    os.environ['LSIM_DEPTH'] = str(data.get('depth', 1))        # the runs are regenerated from their indices: same bounds as when found
    L = load_lentil()
    scn = scenarios.get(data['scenario'], data.get('property', prop))
    # the cold execution first, in a fork taken while this process has not executed anything yet
    cold = fork_map(cold_worker, [{'scn': data['scenario'], 'prop': data['property'],
                                   'verif_seed': data['verif_seed'], 'index': data['index']}], 1, 300)[0]
    prepare(scn, L)
    hist = None
    for i in data['warm_indices'] + [data['index']]:
        run = make_run(scn, data['property'], data['verif_seed'], i)
        hist = scn.execute(L, run)['hist']
    bad = hist != cold
    v = [dict(data['violation'])] if bad else []
    return bad, v


# --------------------------------------------------------------------------- the batch

def run_check(prop, tier, scn_name=None):
    from . import scenarios
    t0 = time.time()
    verif_seed = int(os.environ.get('VERIF_SEED', '0'))
    env_tier = os.environ.get('VERIF_TIER')
    if env_tier and env_tier != tier:
        print('HARNESS-ERROR property=%s VERIF_TIER=%s disagrees with command-line tier %s' % (prop, env_tier, tier))
        return 2
    scn = scenarios.get(scn_name, prop)
    nworkers = int(os.environ.get('VERIF_WORKERS', str(min(16, os.cpu_count() or 1))))
    nruns = int(os.environ.get('VERIF_RUNS', str(scn.quick_runs if tier == 'quick' else scn.thorough_runs)))
    timeout_s = int(os.environ.get('VERIF_CHUNK_TIMEOUT', '600'))
    # deeper bounds in the thorough tier: histories up to twice as long (every child process inherits this)
    os.environ['LSIM_DEPTH'] = os.environ.get('VERIF_DEPTH', '2' if tier == 'thorough' else '1')
    known, fixed = load_findings(prop)
    print('lsim property=%s scenario=%s tier=%s VERIF_SEED=%d runs=%d workers=%d lentil=%s'
          % (prop, scn.name, tier, verif_seed, nruns, nworkers, lentil_root()))
    sys.stdout.flush()

    try:
        tasks = []
        # 1. corpus replays (known and fixed entries) -- executed in children, never in the zygote
        corpus = []
        for ent in known + fixed:
            rp = ent.get('replay')
            if rp:
                full = os.path.join(VERIF, rp)
                if os.path.exists(full):
                    corpus.append((ent, full))
        corpus_runs = []
        for ent, full in corpus:
            d = json.load(open(full))
            if d.get('kind') == 'coldwarm':
                continue
            corpus_runs.append(d)
        if corpus_runs:
            tasks.append(ChunkTask(scn.name, prop, verif_seed, 'given',
                                   list(range(-1000, -1000 + len(corpus_runs))), runs=corpus_runs))
        # 2. prelude (directed programs guaranteeing the must-hit probes)
        prelude = scn.prelude(verif_seed)
        for r in prelude:
            r.setdefault('scenario', scn.name)
        if prelude:
            tasks.append(ChunkTask(scn.name, prop, verif_seed, 'given',
                                   list(range(-100, -100 + len(prelude))), runs=prelude))
        # 3. seeded runs
        audit_every = scn.audit_every
        for s in range(0, nruns, CHUNK):
            idx = list(range(s, min(nruns, s + CHUNK)))
            audit = [idx[-1]] if (audit_every and (s // CHUNK) % audit_every == 0 and len(idx) > 1) else []
            tasks.append(ChunkTask(scn.name, prop, verif_seed, 'seeded', idx, audit=audit))
        results = fork_map(chunk_worker, tasks, nworkers, timeout_s)

        # 4. cold/warm audit: re-execute audited runs as the first act of a fresh process
        audit_pairs = []
        for t, r in zip(tasks, results):
            for i, h in r['audit'].items():
                audit_pairs.append((t, i, h))
        cold = fork_map(cold_worker, [{'scn': scn.name, 'prop': prop, 'verif_seed': verif_seed, 'index': i}
                                      for (_, i, _) in audit_pairs], nworkers, timeout_s) if audit_pairs else []
    except HarnessError as e:
        print('HARNESS-ERROR property=%s %s' % (prop, e))
        return 2

    # ---- aggregate
    agg = {'probes': {}, 'faults': {}, 'steps': 0, 'runs': 0, 'viol': {}, 'checks': {}}
    hists = set()
    nontrivial = set()
    states = set()
    schedules = set()
    samples = []
    corpus_result = None
    for t, r in zip(tasks, results):
        if t.kind == 'given' and t.indices and t.indices[0] <= -1000:
            corpus_result = r
            agg['runs'] += r['runs']
            agg['steps'] += r['steps']
            continue
        agg['runs'] += r['runs']
        agg['steps'] += r['steps']
        _merge_counts(agg['probes'], r['probes'])
        _merge_counts(agg['faults'], r['faults'])
        _merge_counts(agg['checks'], r['oracle_checks'])
        for h, nt in r['hists']:
            hists.add(h)
            if nt:
                nontrivial.add(h)
        states.update(r['states'])
        schedules.update(r['schedules'])
        if len(samples) < 3:
            samples.extend(r['samples'])
        for k, ent in r['viol'].items():
            cur = agg['viol'].get(k)
            if cur is None:
                agg['viol'][k] = dict(ent, task=t)
            else:
                cur['count'] += ent['count']
    n_audits = len(audit_pairs)
    for (t, i, warm), c in zip(audit_pairs, cold):
        if warm != c:
            k = vkey('C10.coldwarm', {'scenario': scn.name})
            if k not in agg['viol']:
                warm_idx = [x for x in t.indices if x < i]
                agg['viol'][k] = {'count': 1, 'index': i, 'coldwarm': {'warm_indices': warm_idx, 'index': i},
                                  'first': {'oracle': 'C10.coldwarm', 'sig': {'scenario': scn.name},
                                            'detail': 'history digest warm %s != cold %s for run %d' % (warm, c, i)}}
            else:
                agg['viol'][k]['count'] += 1
    if n_audits:
        agg['probes']['coldwarm_audit'] = n_audits

    # ---- corpus verdicts
    lines = []
    status = 0
    known_keys = {e['key']: e for e in known}
    seen_known = {}
    violations_out = []
    if corpus_result is not None:
        ck = corpus_result['viol']
        # map each corpus run to the violations it produced
        for ent, full in corpus:
            pass
        for ent in fixed:
            if ent['key'] in ck:
                # a fixed defect came back: report with its corpus replay
                violations_out.append((ent['key'], ck[ent['key']], os.path.join(VERIF, ent['replay'])))
        for k, e in ck.items():
            if k in known_keys:
                seen_known[k] = seen_known.get(k, 0) + e['count']
            elif k not in [x[0] for x in violations_out] and k not in agg['viol']:
                agg['viol'][k] = dict(e)

    # ---- classify violations from the search
    unknown = []
    for k, ent in sorted(agg['viol'].items(), key=lambda kv: (kv[1].get('index', 0), kv[0])):
        if k in known_keys:
            seen_known[k] = seen_known.get(k, 0) + ent['count']
        else:
            unknown.append((k, ent))

    for k, n in sorted(seen_known.items()):
        print('KNOWN-FINDING: property=%s %s [oracle=%s seen=%d]' % (prop, known_keys[k]['what'], known_keys[k]['oracle'], n))
    for ent in known:
        if ent['key'] not in seen_known:
            print('NOTE: listed known finding not observed in this run: %s' % ent['what'])

    # ---- minimise, write replay, verify in a fresh interpreter
    max_report = int(os.environ.get('VERIF_MAX_REPORT', '6'))
    harness_err = None
    for k, ent, path in [(a, b, c) for (a, b, c) in violations_out]:
        ok = verify_replay(prop, path, k)
        if ok:
            print('VIOLATION property=%s replay=%s' % (prop, path))
            print('  regression of a fixed finding: %s' % k)
            status = 1
        else:
            harness_err = 'fixed-finding corpus replay %s fired in batch but not in a fresh interpreter' % path
    for n, (k, ent) in enumerate(unknown):
        first = ent['first']
        if n >= max_report:
            print('  (+ %d more distinct violation signatures not minimised, e.g. %s)' % (len(unknown) - n, k))
            break
        try:
            if 'coldwarm' in ent:
                data = {'kind': 'coldwarm', 'property': prop, 'scenario': scn.name, 'verif_seed': verif_seed,
                        'violation': first, 'depth': scn.depth}
                data.update(ent['coldwarm'])
            else:
                try:
                    small = fork_map(shrink_worker, [{'scn': scn.name, 'prop': prop, 'run': ent['run'], 'key': k}],
                                     1, 900)[0]
                    data = dict(small)
                    data['kind'] = 'run'
                except HarnessError as e:
                    t = ent.get('task')
                    if t is None or 'does not reproduce' not in str(e):
                        raise
                    # process-history dependent: replay the runs this worker process had executed before it
                    pos = ent.get('pos', 0)
                    if t.kind == 'given':
                        runs = list(t.runs[:pos + 1])
                    else:
                        runs = [make_run(scn, prop, verif_seed, i) for i in t.indices[:pos + 1]]
                    runs = shrink_chunk(scn.name, prop, runs, k)
                    data = {'kind': 'chunk', 'runs': runs,
                            'note': 'the violation needs state left in the process by the earlier runs listed here'}
                data.update({'property': prop, 'scenario': scn.name, 'verif_seed': verif_seed,
                             'violation': {'oracle': first['oracle'], 'sig': first['sig'], 'detail': first['detail']}})
            name = '%s-%s-%08x.json' % (prop, first['oracle'].replace('.', '_'), derive_seed(k) & 0xffffffff)
            path = os.path.join(os.environ.get('LSIM_REPLAY_DIR') or os.path.join(VERIF, 'replays'), name)
            os.makedirs(os.path.dirname(path), exist_ok=True)
            with open(path, 'w') as f:
                json.dump(data, f, indent=1, sort_keys=True)
            if verify_replay(prop, path, k):
                print('VIOLATION property=%s replay=%s' % (prop, path))
                print('  oracle=%s sig=%s seen=%d first_run=%s' % (first['oracle'], json.dumps(first['sig'], sort_keys=True),
                                                                 ent['count'], ent.get('index')))
                print('  detail: %s' % first['detail'])
                if data.get('events') is not None:
                    print('  minimised to %d events' % len(data['events']))
                if data.get('kind') == 'chunk':
                    print('  needs process history: replay holds %d runs executed in order in one process' % len(data['runs']))
                status = 1
            else:
                harness_err = 'violation %s did not reproduce from %s in a fresh interpreter' % (k, path)
        except HarnessError as e:
            harness_err = str(e)

    # ---- must-hit probes
    missing = [p for p in scn.must_hit if not agg['probes'].get(p)]
    wall = time.time() - t0
    write_evidence(prop, tier, verif_seed, scn, agg, hists, nontrivial, states, schedules, samples, wall,
                   len(unknown) + len(violations_out), sorted(seen_known), missing, nworkers)
    print('runs=%d steps=%d distinct_histories=%d nontrivial=%d states=%d faults=%s wall=%.1fs'
          % (agg['runs'], agg['steps'], len(hists), len(nontrivial), len(states),
             json.dumps(agg['faults'], sort_keys=True), wall))
    if harness_err and status == 1:
        # some violations replay exactly (reported above); one that was observed but does not replay is mentioned, not claimed
        print('UNREPRODUCED property=%s (observed during the search, not claimed): %s' % (prop, harness_err))
    elif harness_err:
        print('HARNESS-ERROR property=%s %s' % (prop, harness_err))
        return 2
    if status == 0 and missing:
        print('HARNESS-ERROR property=%s must-hit probes not reached: %s' % (prop, ', '.join(missing)))
        return 2
    if status == 0:
        print('OK property=%s held on everything explored' % prop)
    return status


def verify_replay(prop, path, key):
    """Re-execute a replay file in a fresh interpreter; True iff the same key fires."""
    cmd = [sys.executable, os.path.join(VERIF, 'lsim', 'main.py'), prop, '--replay', path, '--quiet']
    try:
        p = subprocess.run(cmd, capture_output=True, text=True, timeout=900, env=dict(os.environ))
    except subprocess.TimeoutExpired:
        return False
    return p.returncode == 1 and ('VIOLATION property=%s' % prop) in p.stdout


def write_evidence(prop, tier, verif_seed, scn, agg, hists, nontrivial, states, schedules, samples, wall,
                   nviol, known_seen, missing, nworkers):
    rph = agg['runs'] / wall * 3600 if wall > 0 else 0
    stuck = [p for p in scn.probe_names if not agg['probes'].get(p)]
    expl = ('Seeded search over programs/schedules/fault sequences executed against the real lentil. '
            'Probes at zero in this run: %s.' % (', '.join(stuck) if stuck else 'none'))
    if missing:
        expl += ' MUST-HIT probes missing: %s.' % ', '.join(missing)
    ev = {
        'property_id': prop,
        'tier': tier,
        'seed': verif_seed,
        'level': 'exploration',
        'coverage': {
            'evaluations': int(agg['runs']),
            'distinct_nontrivial': int(len(nontrivial)),
            'rule': scn.rule,
            'samples': samples[:3] if samples else [{'note': 'no seeded runs executed'}],
            'steps': int(agg['steps']),
            'runs_per_hour': int(rph),
            'seeds_per_hour': int(rph),
            'workers': nworkers,
            'simulated_time': 'not applicable: lentil reads no clock; %d ticks (API calls and environment events) simulated' % agg['steps'],
            'faults_fired': dict(sorted(agg['faults'].items())),
            'probes': dict(sorted(agg['probes'].items())),
            'oracle_checks': dict(sorted(agg['checks'].items())),
            'distinct_histories': int(len(hists)),
            'distinct_states': int(len(states)),
            'distinct_states_measure': scn.state_measure,
            'distinct_schedules': int(len(schedules)),
            'components': {'real': ['lentil (working tree of %s)' % lentil_root(), 'numpy', 'scipy'],
                           'simulated': ['callers', 'caller-owned buffers', 'call schedule',
                                         'numpy global RNG seeding', 'DFT coordinate cache size',
                                         'process history (fork per chunk, cold/warm audit, pristine-process evaluator)',
                                         'process-wide policy (numpy error state / print options, warnings filters, recursion limit, environment)',
                                         'object lifetime (build-use-drop series inside one step)',
                                         'a second interpreter with another string-hash seed saving objects that are loaded here (C08)'],
                           'stub': []},
            'known_findings_seen': known_seen,
            'explanation': expl,
            'exhaustive': False,
        },
        'assumptions': scn.assumptions,
        'wall_s': round(wall, 2),
        'violations': int(nviol),
    }
    if os.environ.get('LSIM_NO_EVIDENCE') == '1':
        return      # self-tests against scratch copies must not overwrite the evidence of the real tree
    os.makedirs(os.path.join(VERIF, 'evidence'), exist_ok=True)
    with open(os.path.join(VERIF, 'evidence', '%s.json' % prop), 'w') as f:
        json.dump(ev, f, indent=1, sort_keys=True, default=str)
